#!/usr/bin/env python3
"""Regenerates /verif/MANIFEST.json from the table below (kept in one place so that the
claimed checks, their commands and the not_applicable list never drift apart)."""
import json, subprocess

CLAIMED = {
 "C01": ("families core/shared/fut: exactly-once oracle over the recorded history (lost / duplicate / phantom / refused_delivered), evaluated on every complete run after a final drain of every surviving stream", "3 C01"),
 "C02": ("same runs as C01: precedence graph (per-producer order, real-time send order, receive order on every stream) must be acyclic", "5 C02"),
 "C03": ("families core/cap/fut: logical-time capacity inequality at every accepted send, identical payload handed back on refusal, exact window N at quiescence", "5 C03"),
 "C04": ("family slowclone: payload self-check (id/inverse/ledger liveness) at the start and end of every clone and view, with the clone/view suspended in the middle while the writer wraps", "5 C04"),
 "C06": ("families core/shared: after all threads joined, drain / fill-to-Full / drain twice and compare counts and identities with the model state computed from the history", "5 C06"),
 "C07": ("family disconnect: every end-of-stream result checked against sender lifetimes and accepted values; the end must be stable; consumers leaving a shared stream around the disconnect; a run that cannot finish with no live sender and a consumer still waiting is end_never_reported", "5 C07"),
 "C08": ("family blockrecv (quota rule, incl. a lagging stream abandoned by all its consumers): quiescence detector - deadlock (exact, engine-reported) or no-progress livelock under fair scheduling with a consumer inside a blocking receive", "5 C08"),
 "C14": ("family futpark (quota rule, incl. a lagging stream abandoned by all its consumers while sink tasks are parked) under the simulated futures executor: a task parked forever at deadlock / no-progress livelock", "5 C14"),
 "C09": ("engine seq: one simulated thread, generated call sequences over all twelve handle types compared operation by operation with the reference model (return values, handed-back payload identity, no panic, every call returns)", "5 C09"),
 "C13": ("seq.norecv (all orders of dropping receivers, then every send entry point) + concurrent family norecv (last receiver's drop racing retrying / spinning / parking senders): Disconnected with the identical payload, sink future resolves, no send loop hangs", "5 C13"),
 "C15": ("seq.fut (sequential Sink/Stream histories against the model, incl. fresh never-wrapped queues), fut.direct (direct try_recv/recv on futures receivers under concurrency; C01-C03 oracles through futures handles), fut.solo (poll / start_send run with every other thread frozen: bounded own steps, never blocks)", "5 C15"),
 "C18": ("families core.solo / shared.solo on busy/yielding queues: a single try_send / try_recv / try_recv_view with every other thread frozen at an arbitrary operation must return within 2000 own steps and never block on a lock", "5 C18"),
 "C05": ("seq.ledger + concurrent family teardown (the scheduler decides whose drop is last and what is in flight) + core: per-instance birth/clone/drop ledger, every payload and clone dropped exactly once; the hazardous sub-family `mpmc second stream` is generated only here (known finding D11)", "5 C05"),
 "C10": ("families addstream.sole and addstream.sibling: the new stream drained by a freshly spawned thread must be a gap-free suffix starting inside the interval the parent position swept during the call; C01/C02/C03 oracles and the C06 probe on all other streams (addstream.sibling = other consumers of the parent stream running during the call; defect D10 found there was repaired by fix: f489833)", "5 C10"),
 "C11": ("family removal: isolated sends after a removal must equal the model (refused iff the slowest remaining stream has N outstanding), producers in retry loops must finish (quiescence detector), remaining streams pass C01-C03 and the C06 probe, unsubscribe's bool checked against handle lifetimes", "5 C11"),
 "C12": ("family churn: sender count 1->2->1 and consumers per stream 1->2->1 by clone / drop / unsubscribe / into_single / into_multi with clones handed to freshly spawned threads, C01+C02+C03 oracles and C06 probe unchanged", "5 C12"),
 "C16": ("family reclaim with the allocation seam in quarantine mode: every atomic operation, lock and guarded ReaderGroup dereference is checked against the set of freed blocks; double / invalid frees are reported at the free; long stalls anchored at raw dereferences, incl. a leaver thread that holds nothing but the handle it drops", "5 C16"),
 "C17": ("seq.teardown (attributed live bytes return to zero after the last handle), seq.churn (100-800 cycles, every fixed handle operating in every cycle, with and without an earlier drop of a non-last handle, also with all receivers or all senders gone before the cycles start: plateau oracle), concurrent reclaim.count", "5 C17"),
}
NA = {
 "C19": "compile-time trait-bound fact (Send/Sync inference); no schedule, clock, fault or history for a simulator to run - see DESIGN.md section 5 C19",
}
PENDING = {}

def main():
    props = [json.loads(l) for l in open('/verif/properties.jsonl')]
    hooks = subprocess.run(['git','-C','/repo','log','--format=%h %s'],capture_output=True,text=True).stdout.splitlines()
    hook_commits = [l.split()[0] for l in hooks if l.split(' ',1)[1].startswith('verif hooks:')]
    checks = []
    for p in props:
        pid = p['id']
        if pid in CLAIMED:
            text, ref = CLAIMED[pid]
            checks.append({
                "property_id": pid,
                "quick_cmd": f"./check {pid} --tier quick",
                "thorough_cmd": f"./check {pid} --tier thorough",
                "evidence_file": f"/verif/evidence/{pid}.json",
                "replay_cmd_template": f"./check {pid} --replay {{path}}",
                "engine": "sim",
                "level_claimed": {
                    "category": "exploration",
                    "text": "Seeded search over schedules, fault sequences and workloads in a deterministic simulator running the real crate code: " + text + ". A clean batch is evidence, not proof; the level is exploration because the space of interleavings is sampled, not enumerated.",
                    "design_ref": "DESIGN.md section " + ref,
                },
                "level_note": "Trusted base: the shim atomics/locks (sequentially consistent; a scheduling point before every operation and, in random subsets of the runs, after every write and after every load / failed CAS / raw dereference), the shuttle-engine coroutine runtime, the harness oracles and reference model. Assumes SC interleavings at the granularity of the crate's atomic/lock operations; bounds <=3 producers, <=3 streams, <=5 consumers, capacity requests 0..9.",
                "technique": "deterministic simulation with fault injection (seeded schedule/fault search, history oracles, replayable minimised schedules)",
            })
    na = []
    for p in props:
        pid = p['id']
        if pid in CLAIMED: continue
        if pid in NA: na.append({"property_id": pid, "reason": NA[pid]})
        else: na.append({"property_id": pid, "reason": PENDING.get(pid, "not claimed yet: the check for this property is still being built (see DESIGN.md section 5 for the plan); no claim is made")})
    m = {
        "version": 1,
        "setup_cmd": "cd /verif/sim && CARGO_NET_OFFLINE=true cargo build --release --offline",
        "hooks": {
            "guard": "--cfg multiqueue2_verif",
            "enable": "rustflags in /verif/sim/.cargo/config.toml; /verif/sim/shadow/Cargo.toml compiles /repo/src/lib.rs (current working tree) under the package name multiqueue2 with the simulator runtime (multiqueue2_verif_rt) linked in; /repo/Cargo.toml and Cargo.lock are untouched",
            "baseline_off_cmd": "cd /repo && cargo test --workspace --no-fail-fast --offline",
            "source_commits": hook_commits,
            "add_only": True,
        },
        "engines": [{
            "name": "sim", "path": "/verif/sim",
            "serves_properties": sorted(CLAIMED.keys()),
            "kind_free_text": "deterministic simulator: the real crate over shim atomics/locks, a seeded scheduler (uniform/sticky/PCT, stalls, solo freezes) on shuttle-engine coroutines, fault injection, history oracles, strict replay and minimisation",
        }],
        "checks": checks,
        "notes": "Every check rebuilds /verif/sim against /repo's working tree (cargo fingerprints /repo/src through the shadow manifest). Exit 0 clean, 1 VIOLATION (with replay file), 2 harness/build error. Known findings: /verif/known_findings.json.",
        "not_applicable": na,
    }
    json.dump(m, open('/verif/MANIFEST.json','w'), indent=1)
    print("claimed", len(checks), "not claimed", len(na))

main()
