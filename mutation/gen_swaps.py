#!/usr/bin/env python3
"""Second mutant family: swap two adjacent single-line statements (same indentation; comment,
hook and fence lines in between are skipped over and stay where they are).
usage: gen_swaps.py <repo> <outdir>"""
import re, sys, os, difflib
repo, out = sys.argv[1], sys.argv[2]
os.makedirs(out, exist_ok=True)
FILES = ['multiqueue.rs', 'read_cursor.rs', 'countedindex.rs', 'memory.rs', 'atomicsignal.rs', 'wait.rs']
def classify(L):
    kind = [None] * len(L)   # 'stmt' | 'skip' | None (barrier)
    in_test = False; skip_next = False
    for i, l in enumerate(L):
        s = l.strip()
        if s.startswith('#[cfg(test)]'):
            in_test = True
        if in_test:
            continue
        if skip_next:
            kind[i] = 'skip'; skip_next = False; continue
        if s.startswith('#[cfg(multiqueue2_verif)]') or s.startswith('#[cfg(not(multiqueue2_verif))]'):
            kind[i] = 'skip'; skip_next = True; continue
        if s.startswith('//') or not s:
            kind[i] = 'skip'; continue
        if s.startswith('fence('):
            kind[i] = 'skip'; continue
        if s.endswith(';') and not re.match(r'^(return|break|continue|use |pub |const |static |type |#|\}|\)|\]|\.)', s) and s.count('(') == s.count(')') and s.count('{') == s.count('}') and 'verif_hooks' not in s and 'assert' not in s:
            kind[i] = 'stmt'
    return kind
n = 0
idx = open(os.path.join(out, 'index.tsv'), 'w')
for f in FILES:
    p = os.path.join(repo, 'src', f)
    a = open(p).read().split('\n')
    kind = classify(a)
    for i in range(len(a)):
        if kind[i] != 'stmt':
            continue
        j = i + 1
        while j < len(a) and kind[j] == 'skip':
            j += 1
        if j >= len(a) or kind[j] != 'stmt':
            continue
        ind = lambda x: len(x) - len(x.lstrip())
        if ind(a[i]) != ind(a[j]) or a[i].strip() == a[j].strip():
            continue
        b = list(a); b[i], b[j] = a[j], a[i]
        d = ''.join(difflib.unified_diff([x + '\n' for x in a], [x + '\n' for x in b], 'a/src/' + f, 'b/src/' + f, n=3))
        name = 's%03d' % n
        open(os.path.join(out, name + '.diff'), 'w').write(d)
        idx.write('%s\t%s\t%d\tswap_adjacent\t%s\t%s\n' % (name, f, i + 1, a[i].strip(), a[j].strip()))
        n += 1
print(n, 'swap mutants')
