#!/bin/bash
# Stage A: which mutants survive the repository's own test suite?
# usage: stage_a.sh <mutant dir> <worker id> <n workers>   (run one per worktree, in parallel)
M=$1; W=$2; NW=$3
WT=/tmp/mw_$W
if [ ! -d $WT ]; then git -C /repo worktree add --detach $WT HEAD >/dev/null 2>&1; fi
cd $WT || exit 2
git checkout -q -- src
out=$M/stage_a_$W.tsv; : > $out
i=0
for d in $M/[msnw]*.diff; do
  i=$((i+1)); [ $(( i % NW )) -eq $W ] || continue
  name=$(basename $d .diff)
  git checkout -q -- src
  if ! git apply $d 2>/dev/null; then echo -e "$name\tapply_failed" >> $out; continue; fi
  if ! cargo build --offline --tests > /tmp/mw_${W}_build.log 2>&1; then echo -e "$name\tno_compile" >> $out; continue; fi
  timeout 120 cargo test --offline --no-fail-fast > /tmp/mw_${W}_test.log 2>&1; rc=$?
  if [ $rc -eq 0 ]; then echo -e "$name\tsurvived_suite" >> $out
  elif [ $rc -eq 124 ]; then echo -e "$name\tkilled_by_suite_timeout" >> $out; pkill -f "$WT/target" 2>/dev/null
  else echo -e "$name\tkilled_by_suite" >> $out; fi
done
git checkout -q -- src
echo "worker $W done"
