#!/usr/bin/env python3
"""Third mutant family: negate an `if` / `while` condition that the first-order family left
alone (no ==, !=, &&, ||, `let`, leading `!`): method-call and comparison conditions.
usage: gen_negations.py <repo> <outdir>"""
import re, sys, os, difflib
repo, out = sys.argv[1], sys.argv[2]
os.makedirs(out, exist_ok=True)
FILES = ['multiqueue.rs', 'read_cursor.rs', 'countedindex.rs', 'memory.rs', 'atomicsignal.rs', 'wait.rs', 'broadcast.rs', 'mpmc.rs']
n = 0
idx = open(os.path.join(out, 'index.tsv'), 'w')
for f in FILES:
    a = open(os.path.join(repo, 'src', f)).read().split('\n')
    in_test = False; skip_next = False
    for i, l in enumerate(a):
        s = l.strip()
        if s.startswith('#[cfg(test)]'): in_test = True
        if in_test: continue
        if skip_next: skip_next = False; continue
        if s.startswith('#[cfg(multiqueue2_verif)]') or s.startswith('#[cfg(not(multiqueue2_verif))]'): skip_next = True; continue
        m = re.match(r'^(\s*(?:\} else )?(?:if|while) )(.+)( \{)$', l)
        if not m: continue
        cond = m.group(2)
        if any(t in cond for t in ('==', '!=', '&&', '||', 'let ', 'verif_hooks')) or cond.startswith('!'): continue
        b = list(a); b[i] = m.group(1) + '!(' + cond + ')' + m.group(3)
        d = ''.join(difflib.unified_diff([x + '\n' for x in a], [x + '\n' for x in b], 'a/src/' + f, 'b/src/' + f, n=3))
        name = 'n%03d' % n
        open(os.path.join(out, name + '.diff'), 'w').write(d)
        idx.write('%s\t%s\t%d\tnegate_any\t%s\t%s\n' % (name, f, i + 1, s, b[i].strip()))
        n += 1
print(n, 'negation mutants')
