#!/usr/bin/env python3
"""Mechanical first-order mutants of /repo/src (one token or one statement each).
usage: gen_mutants.py <repo> <outdir>   -> writes <outdir>/mNNN.diff and index.tsv
Mutants are source-level only; memory-ordering arguments and fences are never touched (the
simulation is sequentially consistent and could not see them), nor are lines under
cfg(multiqueue2_verif), comments, tests, Debug impls."""
import re, sys, os, subprocess, difflib
repo, out = sys.argv[1], sys.argv[2]
WRAPPERS_FULL = '--wrappers' in sys.argv   # third family: all operators on the wrapper files only
os.makedirs(out, exist_ok=True)
FILES = ['multiqueue.rs', 'read_cursor.rs', 'countedindex.rs', 'memory.rs', 'atomicsignal.rs', 'wait.rs', 'broadcast.rs', 'mpmc.rs']
if WRAPPERS_FULL:
    FILES = ['broadcast.rs', 'mpmc.rs']
muts = []
def code_lines(path):
    L = open(path).read().split('\n')
    ok = [True] * len(L)
    in_test = False; depth = 0; skip_next = False
    for i, l in enumerate(L):
        s = l.strip()
        if s.startswith('#[cfg(test)]'):
            in_test = True
        if in_test:
            ok[i] = False
            continue
        if skip_next:
            ok[i] = False; skip_next = False
            continue
        if s.startswith('#[cfg(multiqueue2_verif)]') or s.startswith('#[cfg(not(multiqueue2_verif))]'):
            ok[i] = False; skip_next = True
            continue
        if s.startswith('//') or s.startswith('///') or s.startswith('#[') or s.startswith('*') or s.startswith('/*') or not s:
            ok[i] = False
        if 'verif_hooks' in l or 'fence(' in l or 'debug_assert' in l or 'assert!' in l or 'panic!' in l or 'println' in l or 'write!(' in l:
            ok[i] = False
    return L, ok
def add(f, i, new, op):
    muts.append((f, i, new, op))
for f in FILES:
    p = os.path.join(repo, 'src', f)
    L, ok = code_lines(p)
    # wrappers: only a sample of operators (they mostly delegate)
    light = f in ('broadcast.rs', 'mpmc.rs') and not WRAPPERS_FULL
    for i, l in enumerate(L):
        if not ok[i]:
            continue
        s = l.strip()
        cond = s.startswith('if ') or s.startswith('while ') or s.startswith('} else if ') or ' if ' in s and s.endswith('{')
        if cond or re.search(r'\b(return|=>)\b.*(==|!=)', s) or re.match(r'^[a-z_!(&*.]+.*(==|!=).*$', s) and not s.endswith(';') :
            for m in re.finditer(r'==|!=', l):
                t = '!=' if m.group() == '==' else '=='
                add(f, i, l[:m.start()] + t + l[m.end():], 'eq_flip')
            for m in re.finditer(r' (<=|>=|<|>) ', l):
                g = m.group(1)
                t = {'<': '<=', '<=': '<', '>': '>=', '>=': '>'}[g]
                add(f, i, l[:m.start(1)] + t + l[m.end(1):], 'rel_edge')
            for m in re.finditer(r'&&|\|\|', l):
                t = '||' if m.group() == '&&' else '&&'
                add(f, i, l[:m.start()] + t + l[m.end():], 'logic_swap')
            m = re.match(r'^(\s*(?:\} else )?if )(!?)(.*)$', l)
            if m and ' let ' not in l and '&&' not in l and '||' not in l and not light:
                if m.group(2) == '!':
                    add(f, i, m.group(1) + m.group(3), 'negate_cond')
        if light:
            continue
        # statement deletion: a bare call statement
        if re.match(r'^(self\.|RW::|mem\.|alloc::|ptr::|[a-z_]+\.)[A-Za-z0-9_.:<>&*() ,]*\(.*\);$', s) and not s.startswith('let ') and 'return' not in s:
            add(f, i, re.match(r'^\s*', l).group() + '// (deleted) ' + s if False else '', 'delete_stmt')
        for m in re.finditer(r'(wrapping_add|wrapping_sub|fetch_add|fetch_sub)\(', l):
            g = m.group(1)
            t = {'wrapping_add': 'wrapping_sub', 'wrapping_sub': 'wrapping_add', 'fetch_add': 'fetch_sub', 'fetch_sub': 'fetch_add'}[g]
            add(f, i, l[:m.start(1)] + t + l[m.end(1):], 'arith_swap')
        for m in re.finditer(r'([+-]) 1\b', l):
            add(f, i, l[:m.start()] + m.group(1) + ' 2' + l[m.end():], 'const_1_to_2')
        for m in re.finditer(r'\((\w+, )?1(, \w+)?\)', l):
            if 'commit' in l or 'wrapping' in l or 'fetch' in l:
                add(f, i, l[:m.start()] + m.group().replace('1', '2', 1) + l[m.end():], 'const_1_to_2')
        if re.match(r'^(return )?(true|false);?$', s) or re.search(r'=> (true|false),?$', s):
            t = l.replace('true', '\x00').replace('false', 'true').replace('\x00', 'false')
            add(f, i, t, 'bool_flip')
# write diffs
idx = open(os.path.join(out, 'index.tsv'), 'w')
n = 0
for (f, i, new, op) in muts:
    p = os.path.join(repo, 'src', f)
    a = open(p).read().split('\n')
    b = list(a)
    if new == '':
        b[i] = re.match(r'^\s*', a[i]).group() + '();' if a[i].strip().endswith(';') else a[i]
        # keep a unit expression so that blocks stay well formed
    else:
        b[i] = new
    if a == b:
        continue
    d = ''.join(difflib.unified_diff([x + '\n' for x in a], [x + '\n' for x in b], 'a/src/' + f, 'b/src/' + f, n=3))
    name = ('w%03d' if WRAPPERS_FULL else 'm%03d') % n
    open(os.path.join(out, name + '.diff'), 'w').write(d)
    idx.write('%s\t%s\t%d\t%s\t%s\t%s\n' % (name, f, i + 1, op, a[i].strip(), b[i].strip()))
    n += 1
print(n, 'mutants')
