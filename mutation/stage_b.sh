#!/bin/bash
# Stage B: which suite-surviving mutants do the checks detect?
# usage: stage_b.sh <mutant dir> <list of mutant names file> <divisor> <out.tsv>
# Runs a scratch copy of /verif against a scratch worktree (never /repo). For each mutant the
# checks run in a fixed order with runs = quick/<divisor> and stop at the first that reports a
# violation.
M=$1; LIST=$2; DIV=$3; OUT=$4
S=/tmp/vscratch_mut; WT=/tmp/mwb
[ -d $WT ] || git -C /repo worktree add --detach $WT HEAD >/dev/null 2>&1
mkdir -p $S
rsync -a --delete --exclude sim/target --exclude .git --exclude replays --exclude evidence --exclude seeded --exclude mutation /verif/ $S/
mkdir -p $S/evidence $S/replays
sed -i "s#path = \"/repo/src/lib.rs\"#path = \"$WT/src/lib.rs\"#" $S/sim/shadow/Cargo.toml
ORDER="C09 C01 C05 C06 C13 C08 C14 C17 C16 C18 C03 C04 C02 C07 C10 C11 C12 C15"
declare -A Q=( [C01]=800000 [C02]=800000 [C03]=600000 [C04]=600000 [C05]=900000 [C06]=600000 [C07]=1000000 [C08]=1000000 [C09]=1200000 [C10]=700000 [C11]=800000 [C12]=700000 [C13]=1500000 [C14]=1000000 [C15]=700000 [C16]=250000 [C17]=350000 [C18]=600000 )
: >> $OUT
for name in $(cat $LIST); do
  grep -q "^$name	" $OUT && continue
  git -C $WT checkout -q -- src
  git -C $WT apply $M/$name.diff || { echo -e "$name\tapply_failed" >> $OUT; continue; }
  touch $WT/src/*.rs
  det="-"; cls="-"; errs=""
  for p in $ORDER; do
    runs=$(( ${Q[$p]} / DIV ))
    ( cd $S && VERIF_MINIMISE_S=0 timeout 600 ./check $p --runs $runs > /tmp/stage_b_$p.log 2>&1 ); rc=$?
    if [ $rc -eq 1 ]; then det=$p; cls=$(grep -o "^violation: [A-Za-z0-9_.]*" /tmp/stage_b_$p.log | sort -u | sed 's/violation: //' | paste -sd, -); break; fi
    if [ $rc -ne 0 ]; then errs="$errs $p:rc$rc"; fi
  done
  echo -e "$name\t$det\t$cls\t$errs" >> $OUT
done
git -C $WT checkout -q -- src
echo "stage B done"
