//! The harness scheduler: one PRNG stream decides every interleaving; every decision is
//! recorded; a record can be replayed strictly (must not diverge) or tolerantly (minimiser).

use crate::prng::Rng;
use multiqueue2_verif_rt as rt;
use rt::state::{Fault, MAX_TASKS};
use shuttle_engine::scheduler::{Schedule, Scheduler, Task, TaskId};
use std::cell::RefCell;
use std::rc::Rc;

#[derive(Clone, Copy, Debug, PartialEq, Eq)]
pub enum Strategy {
    Uniform,
    /// stay on the current task with probability p/1000
    Sticky(u32),
    /// PCT with d priority change points
    Pct(u32),
}

impl Strategy {
    pub fn name(&self) -> String {
        match self {
            Strategy::Uniform => "uniform".into(),
            Strategy::Sticky(p) => format!("sticky({})", p),
            Strategy::Pct(d) => format!("pct({})", d),
        }
    }
    pub fn parse(s: &str) -> Option<Strategy> {
        if s == "uniform" {
            return Some(Strategy::Uniform);
        }
        if let Some(r) = s.strip_prefix("sticky(") {
            return r.trim_end_matches(')').parse().ok().map(Strategy::Sticky);
        }
        if let Some(r) = s.strip_prefix("pct(") {
            return r.trim_end_matches(')').parse().ok().map(Strategy::Pct);
        }
        None
    }
}

#[derive(Clone, Copy, Debug, PartialEq, Eq)]
pub struct StallPlan {
    pub at_step: u64,
    pub len: u32,
    /// prefer a victim that is inside an API call
    pub prefer_in_api: bool,
}

#[derive(Clone, Debug)]
pub struct SchedCfg {
    pub seed: u64,
    pub strategy: Strategy,
    pub stalls: Vec<StallPlan>,
    pub max_steps: u64,
    pub livelock_window: u64,
    pub replay: Option<Vec<u8>>,
    pub replay_strict: bool,
}

impl SchedCfg {
    pub fn new(seed: u64, strategy: Strategy) -> SchedCfg {
        SchedCfg {
            seed,
            strategy,
            stalls: Vec::new(),
            max_steps: 2_000_000,
            livelock_window: 20_000,
            replay: None,
            replay_strict: true,
        }
    }
}

#[derive(Clone, Copy, Debug, PartialEq, Eq)]
pub enum End {
    /// all simulated threads finished
    Completed,
    /// every unfinished thread is blocked
    Deadlock,
    /// no shared-state progress for a whole window under fair scheduling
    Livelock,
    /// a task stopped the execution (violation detected inside the run)
    Stopped,
    /// a task panicked
    Panic,
    /// step budget exhausted (harness error, never a violation)
    StepCap,
    /// strict replay diverged from the record (harness error)
    ReplayDiverged,
    Running,
}

impl End {
    pub fn name(&self) -> &'static str {
        match self {
            End::Completed => "completed",
            End::Deadlock => "deadlock",
            End::Livelock => "livelock",
            End::Stopped => "stopped",
            End::Panic => "panic",
            End::StepCap => "step_cap",
            End::ReplayDiverged => "replay_diverged",
            End::Running => "running",
        }
    }
}

pub struct Core {
    pub cfg: SchedCfg,
    rng: Rng,
    pub step: u64,
    pub record: Vec<u8>,
    pub end: End,
    frozen_until: [u64; MAX_TASKS],
    prio: [u64; MAX_TASKS],
    prio_set: [bool; MAX_TASKS],
    /// next "lowest" priority for a demoted task (strictly decreasing, so demoted tasks queue up
    /// behind each other instead of starving each other)
    low_prio: u64,
    change_points: Vec<u64>,
    next_stall: usize,
    // livelock detector
    ever_seen: std::collections::HashSet<u64>,
    last_fp: u64,
    window_start: u64,
    pub fair: bool,
    /// consecutive fair decisions without progress
    fair_idle: u64,
    /// the decision being made is a fair one (recorded with the schedule)
    pub last_fair: bool,
    pub preempts_in_api: u64,
    pub context_switches: u64,
    solo_counted: bool,
    pub replay_pos: usize,
    pub diverged_at: Option<u64>,
    /// (task -> steps scheduled) in the current no-progress window
    pub max_tasks_seen: usize,
    /// schedule picks that were actual preemptions (the chosen task differs from a still
    /// runnable current task)
    pub preemptions: u64,
}

impl Core {
    pub fn new(cfg: SchedCfg) -> Core {
        let mut rng = Rng::new(cfg.seed ^ 0x5ced_u64);
        let mut change_points = Vec::new();
        if let Strategy::Pct(d) = cfg.strategy {
            for _ in 0..d {
                change_points.push(rng.below(1500));
            }
            change_points.sort_unstable();
        }
        let mut stalls = cfg.stalls.clone();
        stalls.sort_by_key(|s| s.at_step);
        let cfg = SchedCfg { stalls, ..cfg };
        Core {
            cfg,
            rng,
            step: 0,
            record: Vec::with_capacity(4096),
            end: End::Running,
            frozen_until: [0; MAX_TASKS],
            prio: [0; MAX_TASKS],
            prio_set: [false; MAX_TASKS],
            low_prio: 1 << 61,
            change_points,
            next_stall: 0,
            ever_seen: std::collections::HashSet::with_capacity(1024),
            last_fp: 0,
            window_start: 0,
            fair: false,
            fair_idle: 0,
            last_fair: false,
            preempts_in_api: 0,
            context_switches: 0,
            solo_counted: false,
            replay_pos: 0,
            diverged_at: None,
            max_tasks_seen: 0,
            preemptions: 0,
        }
    }

    /// No-progress detector. Progress = the shared-state fingerprint takes a value it never
    /// had before in this execution (positions, tags, epochs and the harness's own "call
    /// completed" marks are monotone, so real progress always produces a fresh value, while
    /// spinning, lock/unlock and pin/unpin cycles only revisit old ones). After half a
    /// window without progress scheduling becomes uniformly random (fair); the run is
    /// declared livelocked after another half window of *fair* decisions without progress.
    /// Only fair decisions count, so an unfair stretch of a (shrunk) replayed schedule can
    /// never manufacture a livelock.
    fn note_progress(&mut self, r: &rt::state::Rt) {
        let fp = r.fp.get();
        if fp != self.last_fp {
            self.last_fp = fp;
            if self.ever_seen.insert(fp) {
                self.window_start = self.step;
                self.fair = false;
                self.fair_idle = 0;
            }
        }
    }

    fn choose(&mut self, runnable: &[usize], current: Option<usize>, is_yielding: bool) -> Option<usize> {
        let r = rt::state::RT.with(|r| r as *const rt::state::Rt);
        let r = unsafe { &*r };
        self.step += 1;

        if r.stop.get() {
            self.end = End::Stopped;
            return None;
        }
        if self.step > self.cfg.max_steps {
            self.end = End::StepCap;
            return None;
        }
        self.note_progress(r);
        if self.fair_idle > self.cfg.livelock_window / 2 {
            self.end = End::Livelock;
            return None;
        }
        for &t in runnable {
            if t + 1 > self.max_tasks_seen {
                self.max_tasks_seen = t + 1;
            }
        }

        // ---- replay
        self.last_fair = false;
        if let Some(rec) = &self.cfg.replay {
            if self.replay_pos < rec.len() {
                let raw = rec[self.replay_pos];
                let want = (raw & 0x7f) as usize;
                self.replay_pos += 1;
                if self.cfg.replay_strict {
                    if runnable.contains(&want) {
                        if raw & 0x80 != 0 {
                            self.last_fair = true;
                            self.fair_idle += 1;
                        }
                        return Some(want);
                    }
                    self.diverged_at = Some(self.step);
                    self.end = End::ReplayDiverged;
                    return None;
                }
                // tolerant (minimiser): decisions taken from a shrunk record are not fair
                if runnable.contains(&want) {
                    return Some(want);
                }
                return Some(match current {
                    Some(c) if runnable.contains(&c) => c,
                    _ => *runnable.iter().min().unwrap(),
                });
            } else {
                if self.cfg.replay_strict {
                    self.diverged_at = Some(self.step);
                    self.end = End::ReplayDiverged;
                    return None;
                }
                // tolerant: after the record ends run without preemption (keep the current
                // task until it yields or blocks, then the next runnable id), which gives the
                // shortest schedules; after half a window without progress switch to fair
                // uniform scheduling exactly like a normal run, so that a livelock is only
                // ever declared under fair decisions
                let idle = self.step - self.window_start;
                if idle > self.cfg.livelock_window / 2 {
                    self.last_fair = true;
                    self.fair_idle += 1;
                    return Some(runnable[self.rng.below(runnable.len() as u64) as usize]);
                }
                return Some(match current {
                    Some(c) if runnable.contains(&c) && !is_yielding => c,
                    _ => {
                        let c = current.unwrap_or(0);
                        *runnable.iter().find(|&&t| t > c).unwrap_or(runnable.iter().min().unwrap())
                    }
                });
            }
        }
        let idle = self.step - self.window_start;
        if idle > self.cfg.livelock_window / 2 {
            self.fair = true;
        }

        // ---- solo mode: everybody else is frozen
        if let Some(s) = r.solo.get() {
            if runnable.contains(&s) {
                if !self.solo_counted {
                    self.solo_counted = true;
                    r.fault(Fault::SoloFreeze);
                }
                // nobody else may run, so every decision is trivially fair: a solo call
                // that makes no progress for half a window never returns
                self.last_fair = true;
                self.fair_idle += 1;
                return Some(s);
            }
            // the solo task blocked on something a frozen task holds
            r.solo_blocked.set(true);
            r.solo.set(None);
        }
        self.solo_counted = false;

        // ---- stalls requested by traps
        if let Some((t, len)) = r.stall_req.take() {
            if t < MAX_TASKS {
                self.frozen_until[t] = self.step + len as u64;
            }
        }
        // ---- planned stalls
        while self.next_stall < self.cfg.stalls.len() && self.cfg.stalls[self.next_stall].at_step <= self.step {
            let plan = self.cfg.stalls[self.next_stall];
            self.next_stall += 1;
            let mut cands: Vec<usize> = runnable
                .iter()
                .copied()
                .filter(|&t| t != 0 && (!plan.prefer_in_api || r.in_api[t].get() > 0))
                .collect();
            if cands.is_empty() {
                cands = runnable.iter().copied().filter(|&t| t != 0).collect();
            }
            if !cands.is_empty() {
                let v = cands[self.rng.below(cands.len() as u64) as usize];
                self.frozen_until[v] = self.step + plan.len as u64;
                r.fault(Fault::Stall);
            }
        }

        // ---- candidates
        let mut cands: [usize; MAX_TASKS] = [0; MAX_TASKS];
        let mut n = 0;
        for &t in runnable {
            if self.frozen_until[t] <= self.step {
                cands[n] = t;
                n += 1;
            }
        }
        if n == 0 {
            // everything runnable is frozen: the stall ends early
            for &t in runnable {
                self.frozen_until[t] = 0;
                cands[n] = t;
                n += 1;
            }
        }
        let cands = &cands[..n];

        let pick = if self.fair {
            self.last_fair = true;
            self.fair_idle += 1;
            cands[self.rng.below(n as u64) as usize]
        } else {
            match self.cfg.strategy {
                Strategy::Uniform => cands[self.rng.below(n as u64) as usize],
                Strategy::Sticky(p) => {
                    let cur_ok = current.map(|c| cands.contains(&c)).unwrap_or(false);
                    if cur_ok && !is_yielding && self.rng.below(1000) < p as u64 {
                        current.unwrap()
                    } else if n > 1 && cur_ok && is_yielding {
                        // a yielding task gives way when somebody else can run
                        let c = current.unwrap();
                        loop {
                            let x = cands[self.rng.below(n as u64) as usize];
                            if x != c {
                                break x;
                            }
                        }
                    } else {
                        cands[self.rng.below(n as u64) as usize]
                    }
                }
                Strategy::Pct(_) => {
                    for &t in cands {
                        if !self.prio_set[t] {
                            self.prio_set[t] = true;
                            self.prio[t] = (self.rng.next() >> 1) | (1 << 62);
                        }
                    }
                    // demote yielding or spinning tasks so that spin loops cannot starve
                    // the thread they wait for
                    if let Some(c) = current {
                        if c < MAX_TASKS && (is_yielding || r.idle_ops[c].get() >= 64) {
                            // to the back of the line: lower than everything handed out so far
                            self.low_prio -= 1;
                            self.prio[c] = self.low_prio;
                            r.idle_ops[c].set(0);
                        }
                    }
                    while !self.change_points.is_empty() && self.change_points[0] <= self.step {
                        self.change_points.remove(0);
                        if let Some(&top) = cands.iter().max_by_key(|&&t| self.prio[t]) {
                            self.low_prio -= 1;
                            self.prio[top] = self.low_prio;
                        }
                    }
                    *cands.iter().max_by_key(|&&t| self.prio[t]).unwrap()
                }
            }
        };
        Some(pick)
    }
}

/// Shared handle: the Runner owns one clone, the batch driver another.
#[derive(Clone)]
pub struct SimSched {
    pub core: Rc<RefCell<Option<Core>>>,
    /// called by `new_execution`: returns false when the batch is over
    pub next: Rc<RefCell<dyn FnMut() -> bool>>,
}

impl Scheduler for SimSched {
    fn new_execution(&mut self) -> Option<Schedule> {
        let more = (self.next.borrow_mut())();
        if more {
            Some(Schedule::new(0))
        } else {
            None
        }
    }

    fn next_task(&mut self, runnable_tasks: &[&Task], current_task: Option<TaskId>, is_yielding: bool) -> Option<TaskId> {
        let mut guard = self.core.borrow_mut();
        let core = guard.as_mut().expect("scheduler core not installed");
        let mut ids: [usize; MAX_TASKS] = [0; MAX_TASKS];
        let mut n = 0;
        for t in runnable_tasks {
            let id: usize = t.id().into();
            if id >= MAX_TASKS {
                panic!("harness: more than {} simulated tasks", MAX_TASKS);
            }
            ids[n] = id;
            n += 1;
        }
        let cur: Option<usize> = current_task.map(|t| t.into());
        let pick = match core.choose(&ids[..n], cur, is_yielding) {
            Some(p) => p,
            None => {
                // the execution stops here: no task runs again except to be unwound by the
                // engine's cleanup, and those drop handlers must not call back into it
                rt::with(|r| r.active.set(false));
                return None;
            }
        };
        core.record.push(pick as u8 | if core.last_fair { 0x80 } else { 0 });
        rt::with(|r| {
            if let Some(c) = cur {
                if c != pick {
                    core.context_switches += 1;
                    if ids[..n].contains(&c) {
                        core.preemptions += 1;
                        if r.in_api[c].get() > 0 {
                            core.preempts_in_api += 1;
                            r.fault(Fault::Preempt);
                        }
                    }
                }
            }
            r.cur.set(pick);
        });
        Some(TaskId::from(pick))
    }

    fn next_u64(&mut self) -> u64 {
        let mut guard = self.core.borrow_mut();
        guard.as_mut().map(|c| c.rng.next()).unwrap_or(0)
    }
}

/// Run-length encoding of a schedule record: "t*n t*n ..."; a trailing `f` on the task id
/// marks decisions taken in fair mode (they count towards the no-progress window).
pub fn rle(rec: &[u8]) -> String {
    let mut out = String::new();
    let mut i = 0;
    while i < rec.len() {
        let t = rec[i];
        let mut j = i;
        while j < rec.len() && rec[j] == t {
            j += 1;
        }
        if !out.is_empty() {
            out.push(' ');
        }
        out.push_str(&format!("{}{}*{}", t & 0x7f, if t & 0x80 != 0 { "f" } else { "" }, j - i));
        i = j;
    }
    out
}

pub fn unrle(s: &str) -> Result<Vec<u8>, String> {
    let mut out = Vec::new();
    for tok in s.split_whitespace() {
        let mut it = tok.split('*');
        let head = it.next().ok_or("bad rle")?;
        let (num, fair) = match head.strip_suffix('f') {
            Some(n) => (n, 0x80u8),
            None => (head, 0u8),
        };
        let t: u8 = num.parse().map_err(|_| "bad rle task")?;
        let n: usize = it.next().ok_or("bad rle")?.parse().map_err(|_| "bad rle count")?;
        for _ in 0..n {
            out.push(t | fair);
        }
    }
    Ok(out)
}

/// Segments of a record for the minimiser; fair marks are dropped (a shrunk schedule is
/// replayed tolerantly, where only the continuation after its end is fair).
pub fn segments(rec: &[u8]) -> Vec<(u8, usize)> {
    let mut out: Vec<(u8, usize)> = Vec::new();
    for &t in rec {
        if t & 0x80 != 0 {
            // the fair tail is regenerated by the tolerant replay
            break;
        }
        match out.last_mut() {
            Some((lt, n)) if *lt == t => *n += 1,
            _ => out.push((t, 1)),
        }
    }
    out
}

pub fn unsegments(segs: &[(u8, usize)]) -> Vec<u8> {
    let mut out = Vec::new();
    for &(t, n) in segs {
        for _ in 0..n {
            out.push(t);
        }
    }
    out
}
