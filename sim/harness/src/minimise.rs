//! Replay and minimisation of failing runs.

use crate::exec::{self, RunOutcome, RunSource};
use crate::hist;
use crate::json::J;
use crate::oracles::Violation;
use crate::props;
use crate::scenario::{self, Op, Scenario, UNLIMITED};
use crate::sched::{self, End, SchedCfg};
use crate::worker;
use std::time::{Duration, Instant};

struct One {
    item: Option<(Scenario, SchedCfg)>,
    out: Option<RunOutcome>,
}
impl RunSource for One {
    fn next(&mut self) -> Option<(Scenario, SchedCfg)> {
        self.item.take()
    }
    fn done(&mut self, o: RunOutcome) {
        self.out = Some(o);
    }
}

pub fn run_single(scn: &Scenario, cfg: &SchedCfg) -> RunOutcome {
    let mut one = One { item: Some((scn.clone(), cfg.clone())), out: None };
    exec::run_batch(&mut one);
    one.out.expect("run produced no outcome")
}

pub struct Failure {
    pub prop: String,
    pub class: String,
    pub site: String,
    pub scn: Scenario,
    pub cfg: SchedCfg,
    pub record: Vec<u8>,
    pub digest: String,
    pub index: u64,
    pub seed: u64,
    pub raw: J,
}

pub fn parse_failure(j: &J) -> Result<Failure, String> {
    let scn = Scenario::from_json(j.get("scenario").ok_or("scenario")?)?;
    let cfg = scenario::sched_from(j.get("sched").ok_or("sched")?)?;
    let record = sched::unrle(j.s("schedule"))?;
    Ok(Failure {
        prop: j.s("property").to_string(),
        class: j.s("class").to_string(),
        site: j.s("site").to_string(),
        scn,
        cfg,
        record,
        digest: j.s("history_digest").to_string(),
        index: j.u("index"),
        seed: j.u("seed"),
        raw: j.clone(),
    })
}

fn full_class(v: &Violation) -> String {
    format!("{}.{}", v.prop, v.class)
}

/// Run with the given record; return the matching violation if the same class and site recur.
fn try_replay(prop: &str, class: &str, site: &str, scn: &Scenario, cfg: &SchedCfg, record: Option<&[u8]>, strict: bool) -> Option<(RunOutcome, Violation)> {
    let mut c = cfg.clone();
    c.replay = record.map(|r| r.to_vec());
    c.replay_strict = strict;
    let o = run_single(scn, &c);
    if matches!(o.end, End::StepCap | End::ReplayDiverged) {
        return None;
    }
    let v = props::evaluate(prop, scn, &o);
    if v.harness_error.is_some() {
        return None;
    }
    let hit = v.violations.into_iter().find(|x| full_class(x) == class && x.site == site)?;
    Some((o, hit))
}

pub struct ReplayResult {
    pub reproduced: bool,
    pub same_history: bool,
    pub outcome: RunOutcome,
    pub violation: Option<Violation>,
    pub note: String,
}

/// Strict replay of a replay file.
pub fn replay(f: &Failure) -> ReplayResult {
    let mut c = f.cfg.clone();
    c.replay = Some(f.record.clone());
    c.replay_strict = true;
    let o = run_single(&f.scn, &c);
    let v = props::evaluate(&f.prop, &f.scn, &o);
    let digest = format!("{:016x}", hist::digest(&o.recs));
    let hit = v.violations.iter().find(|x| full_class(x) == f.class && x.site == f.site).cloned();
    let any = v.violations.first().cloned();
    let mut note = String::new();
    if o.end == End::ReplayDiverged {
        note = format!("the recorded schedule diverged at step {:?}: the tree differs from the one that produced this file", o.diverged_at);
    } else if let Some(e) = &v.harness_error {
        note = e.clone();
    }
    ReplayResult {
        reproduced: hit.is_some(),
        same_history: digest == f.digest,
        violation: hit.or(any),
        outcome: o,
        note,
    }
}

fn is_liveness(end: &str) -> bool {
    matches!(end, "deadlock" | "livelock")
}

/// Candidate scenarios that are strictly simpler.
fn shrink_candidates(s: &Scenario, structural: bool) -> Vec<Scenario> {
    let mut out = Vec::new();
    // knobs first
    if s.slow_clone > 0 || s.slow_view > 0 {
        let mut c = s.clone();
        c.slow_clone = 0;
        c.slow_view = 0;
        out.push(c);
    }
    if s.slow_drop > 0 {
        let mut c = s.clone();
        c.slow_drop = 0;
        out.push(c);
    }
    if s.post_write {
        let mut c = s.clone();
        c.post_write = false;
        out.push(c);
    }
    if s.post_load {
        let mut c = s.clone();
        c.post_load = false;
        out.push(c);
    }
    if s.weak_cas_rate > 0 {
        let mut c = s.clone();
        c.weak_cas_rate = 0;
        out.push(c);
    }
    if s.spurious_poll > 0 {
        let mut c = s.clone();
        c.spurious_poll = 0;
        out.push(c);
    }
    if s.trap.is_some() {
        let mut c = s.clone();
        c.trap = None;
        out.push(c);
    }
    if !structural {
        return out;
    }
    // drop a whole thread (its handles stay idle with main)
    for i in 0..s.threads.len() {
        if s.threads[i].spawned {
            continue;
        }
        let spawns = s.threads[i].prog.iter().any(|o| matches!(o, Op::Spawn { .. }));
        if spawns {
            continue;
        }
        let mut c = s.clone();
        c.threads[i].prog.clear();
        if c.threads[i].prog != s.threads[i].prog {
            out.push(c);
        }
    }
    // drop one op / lower a count
    for i in 0..s.threads.len() {
        for j in 0..s.threads[i].prog.len() {
            match &s.threads[i].prog[j] {
                Op::Spawn { .. } => {}
                Op::Repeat { times, body } if *times > 1 => {
                    let mut c = s.clone();
                    c.threads[i].prog[j] = Op::Repeat { times: times / 2, body: body.clone() };
                    out.push(c);
                }
                Op::Produce { h, n, api, max_retry } if *n > 1 => {
                    let mut c = s.clone();
                    c.threads[i].prog[j] = Op::Produce { h: *h, n: n - 1, api: *api, max_retry: *max_retry };
                    out.push(c);
                    let mut c = s.clone();
                    c.threads[i].prog.remove(j);
                    out.push(c);
                }
                Op::Consume { h, api, quota, max_empty, after_end } if *after_end > 0 || (*quota != UNLIMITED && *quota > 1) => {
                    let mut c = s.clone();
                    c.threads[i].prog[j] = Op::Consume {
                        h: *h,
                        api: *api,
                        quota: if *quota != UNLIMITED && *quota > 1 { quota - 1 } else { *quota },
                        max_empty: *max_empty,
                        after_end: 0,
                    };
                    out.push(c);
                }
                _ => {
                    let mut c = s.clone();
                    c.threads[i].prog.remove(j);
                    out.push(c);
                }
            }
        }
    }
    for j in 0..s.main_prog.len() {
        let mut c = s.clone();
        c.main_prog.remove(j);
        out.push(c);
    }
    for j in (0..s.setup.len()).rev() {
        let mut c = s.clone();
        c.setup.remove(j);
        out.push(c);
    }
    // smaller ring
    if s.queue.cap_req > 1 {
        let mut c = s.clone();
        c.queue.cap_req = s.queue.cap_req.next_power_of_two() / 2;
        out.push(c);
    }
    out
}

fn scenario_size(s: &Scenario) -> usize {
    s.to_json().to_string().len()
}

/// Minimise a failing run: scenario shrinking with seeded re-search, then schedule
/// shrinking under tolerant replay. Every step is accepted only if the same violation
/// class and site recur. Returns the new failure JSON (strictly recorded schedule).
pub fn minimise(f: &Failure, budget: Duration, search_seeds: u64) -> J {
    let t0 = Instant::now();
    let prop = f.prop.as_str();
    let (class, site) = (f.class.as_str(), f.site.as_str());
    let end = f.raw.s("end").to_string();
    let structural = !is_liveness(&end);
    let mut scn = f.scn.clone();
    let mut cfg = f.cfg.clone();
    let mut record = f.record.clone();
    // the starting point must reproduce
    let mut best = match try_replay(prop, class, site, &scn, &cfg, Some(&record), true) {
        Some(x) => x,
        None => return f.raw.clone().set("minimise_note", J::str("original did not reproduce in-process; not minimised")),
    };
    let mut steps_done = 0u32;
    for round in 0..3 {
        let before = (scenario_size(&scn), record.len());
        // ---- phase 1: scenario shrinking
        'outer: loop {
            if t0.elapsed() > budget * 2 / 3 {
                break;
            }
            let cands = shrink_candidates(&scn, structural);
            for cand in cands {
                if t0.elapsed() > budget * 2 / 3 {
                    break 'outer;
                }
                if scenario_size(&cand) >= scenario_size(&scn) && cand.queue.cap_req == scn.queue.cap_req {
                    continue;
                }
                // the old schedule may still fit
                let mut found = try_replay(prop, class, site, &cand, &cfg, Some(&record), false).map(|x| (x, cfg.clone()));
                let mut k = 0;
                while found.is_none() && k < search_seeds && t0.elapsed() <= budget * 2 / 3 {
                    let mut c2 = cfg.clone();
                    c2.seed = cfg.seed.wrapping_add(0x9E37 * (k + 1));
                    c2.replay = None;
                    found = try_replay(prop, class, site, &cand, &c2, None, true).map(|x| (x, c2));
                    k += 1;
                }
                if let Some(((o, v), c2)) = found {
                    scn = cand;
                    cfg = c2;
                    cfg.replay = None;
                    record = o.record.clone();
                    best = (o, v);
                    steps_done += 1;
                    continue 'outer;
                }
            }
            break;
        }
        // drop stall plans that are not needed
        while !cfg.stalls.is_empty() && t0.elapsed() <= budget {
            let mut c2 = cfg.clone();
            c2.stalls.pop();
            match try_replay(prop, class, site, &scn, &c2, Some(&record), false) {
                Some(x) => {
                    cfg = c2;
                    record = x.0.record.clone();
                    best = x;
                }
                None => break,
            }
        }
        // ---- phase 2: schedule shrinking (delta debugging over segments, tolerant replay)
        let mut segs = sched::segments(&record);
        let mut chunk = (segs.len() / 2).max(1);
        while chunk >= 1 && t0.elapsed() <= budget {
            let mut i = 0;
            let mut changed = false;
            while i < segs.len() && t0.elapsed() <= budget {
                let hi = (i + chunk).min(segs.len());
                let mut cand: Vec<(u8, usize)> = Vec::with_capacity(segs.len());
                cand.extend_from_slice(&segs[..i]);
                cand.extend_from_slice(&segs[hi..]);
                let rec2 = sched::unsegments(&cand);
                if let Some(x) = try_replay(prop, class, site, &scn, &cfg, Some(&rec2), false) {
                    // keep what really ran (strict form of the accepted run)
                    record = x.0.record.clone();
                    segs = sched::segments(&record);
                    best = x;
                    changed = true;
                    steps_done += 1;
                } else {
                    i += chunk;
                }
            }
            if chunk == 1 && !changed {
                break;
            }
            chunk = if changed { chunk } else { chunk / 2 };
            if chunk == 0 {
                break;
            }
        }
        // drop empty threads at the end of the list (their indices are not referenced)
        while scn.threads.last().map(|t| t.prog.is_empty() && !scn.threads.iter().any(|x| x.prog.iter().any(|o| matches!(o, Op::Spawn { thread, .. } if *thread as usize == scn.threads.len() - 1)))).unwrap_or(false) {
            let mut c = scn.clone();
            c.threads.pop();
            match try_replay(prop, class, site, &c, &cfg, Some(&record), false) {
                Some(x) => {
                    scn = c;
                    record = x.0.record.clone();
                    best = x;
                }
                None => break,
            }
        }
        if (scenario_size(&scn), record.len()) == before || t0.elapsed() > budget {
            break;
        }
        let _ = round;
    }
    // final: strict replay of the stored record must reproduce
    let ok = try_replay(prop, class, site, &scn, &cfg, Some(&record), true);
    let (o, v) = match ok {
        Some(x) => x,
        None => best,
    };
    let mut j = worker::failure_json(f.index, f.seed, &scn, &cfg, &o, &v);
    j.put("minimised", J::Bool(true));
    j.put("minimise_steps", J::UInt(steps_done as u64));
    j.put("original_schedule_len", J::UInt(f.record.len() as u64));
    j.put("schedule_len", J::UInt(o.record.len() as u64));
    j.put("preemptions", J::UInt(sched::segments(&o.record).len() as u64));
    j
}
