//! The known-findings file (/verif/known_findings.json): genuine defects that are recorded
//! rather than repaired. Read-only for the checks.

use crate::json::{self, J};
use crate::oracles::Violation;

pub struct Finding {
    pub property: String,
    pub class: String,
    pub site: String,
    pub tags: Vec<String>,
    pub what: String,
    pub status: String,
}

pub fn load() -> Vec<Finding> {
    let path = format!("{}/known_findings.json", std::env::var("VERIF_ROOT").unwrap_or_else(|_| "/verif".to_string()));
    let path = path.as_str();
    let txt = match std::fs::read_to_string(path) {
        Ok(t) => t,
        Err(_) => return Vec::new(),
    };
    let j = match json::parse(&txt) {
        Ok(j) => j,
        Err(e) => {
            eprintln!("known_findings.json is not valid JSON: {}", e);
            return Vec::new();
        }
    };
    let mut out = Vec::new();
    if let Some(a) = j.get("findings").and_then(|x| x.as_arr()) {
        for f in a {
            out.push(Finding {
                property: f.s("property").to_string(),
                class: f.s("class").to_string(),
                site: f.s("site").to_string(),
                tags: f.get("tags").and_then(|x| x.as_arr()).map(|a| a.iter().filter_map(|t| t.as_str().map(|s| s.to_string())).collect()).unwrap_or_default(),
                what: f.s("what").to_string(),
                status: f.s("status").to_string(),
            });
        }
    }
    out
}

/// A violation matches an open finding only if property, class, site and *all* listed tags
/// agree. Fixed entries never match anything.
pub fn matches(v: &Violation, f: &Finding) -> bool {
    if f.status != "open" || v.prop != f.property || format!("{}.{}", v.prop, v.class) != f.class {
        return false;
    }
    if !f.site.is_empty() && f.site != "*" && v.site != f.site {
        return false;
    }
    f.tags.iter().all(|t| v.tags.iter().any(|x| x == t))
}

pub fn find<'a>(v: &Violation, fs: &'a [Finding]) -> Option<&'a Finding> {
    fs.iter().find(|f| matches(v, f))
}

pub fn label(f: &Finding) -> String {
    format!("property={} {}", f.property, f.what)
}

pub fn to_json_key(f: &Finding) -> J {
    J::Str(label(f))
}
