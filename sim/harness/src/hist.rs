//! History of API calls: every call is bracketed by an invoke and a return stamp taken
//! from one global logical clock (never a coarse time under which operations tie).

use std::cell::RefCell;

#[derive(Clone, Copy, PartialEq, Eq, Debug)]
pub enum OpK {
    TrySend,
    StartSend,
    PollComplete,
    TryRecv,
    Recv,
    TryRecvView,
    RecvView,
    IterNext,
    TryIterNext,
    IterWithNext,
    TryIterWithNext,
    Poll,
    AddStream,
    CloneRecv,
    DropRecv,
    Unsub,
    IntoSingle,
    IntoMulti,
    Transform,
    CloneSender,
    DropSender,
    UnsubSender,
    Create,
}

impl OpK {
    pub fn name(self) -> &'static str {
        match self {
            OpK::TrySend => "try_send",
            OpK::StartSend => "start_send",
            OpK::PollComplete => "poll_complete",
            OpK::TryRecv => "try_recv",
            OpK::Recv => "recv",
            OpK::TryRecvView => "try_recv_view",
            OpK::RecvView => "recv_view",
            OpK::IterNext => "iter.next",
            OpK::TryIterNext => "try_iter.next",
            OpK::IterWithNext => "iter_with.next",
            OpK::TryIterWithNext => "try_iter_with.next",
            OpK::Poll => "poll",
            OpK::AddStream => "add_stream",
            OpK::CloneRecv => "clone(receiver)",
            OpK::DropRecv => "drop(receiver)",
            OpK::Unsub => "unsubscribe(receiver)",
            OpK::IntoSingle => "into_single",
            OpK::IntoMulti => "into_multi",
            OpK::Transform => "transform_operation",
            OpK::CloneSender => "clone(sender)",
            OpK::DropSender => "drop(sender)",
            OpK::UnsubSender => "unsubscribe(sender)",
            OpK::Create => "create",
        }
    }
    pub fn is_send(self) -> bool {
        matches!(self, OpK::TrySend | OpK::StartSend)
    }
    pub fn is_recv(self) -> bool {
        matches!(
            self,
            OpK::TryRecv
                | OpK::Recv
                | OpK::TryRecvView
                | OpK::RecvView
                | OpK::IterNext
                | OpK::TryIterNext
                | OpK::IterWithNext
                | OpK::TryIterWithNext
                | OpK::Poll
        )
    }
    /// receive entry points that block until a value or the end
    pub fn is_blocking_recv(self) -> bool {
        matches!(self, OpK::Recv | OpK::RecvView | OpK::IterNext | OpK::IterWithNext)
    }
}

#[derive(Clone, Copy, PartialEq, Eq, Debug)]
pub enum Res {
    /// call has not returned (still open when the run ended)
    Open,
    Ok,
    Val(u64),
    Full,
    Disc,
    Empty,
    NotReady,
    /// end of stream: Disconnected / Err(RecvError) / iterator None caused by it / Ready(None)
    End,
    Bool(bool),
    Panic,
}

impl Res {
    pub fn name(self) -> String {
        match self {
            Res::Open => "<open>".into(),
            Res::Ok => "Ok".into(),
            Res::Val(v) => format!("Val({})", crate::payload::fmt_id(v)),
            Res::Full => "Full".into(),
            Res::Disc => "Disconnected".into(),
            Res::Empty => "Empty".into(),
            Res::NotReady => "NotReady".into(),
            Res::End => "End".into(),
            Res::Bool(b) => format!("{}", b),
            Res::Panic => "PANIC".into(),
        }
    }
}

#[derive(Clone, Copy, Debug)]
pub struct Rec {
    pub t_inv: u64,
    pub t_ret: u64, // 0 while open
    pub task: u8,
    pub op: OpK,
    pub h: u32,
    /// stream of the receiver handle (u32::MAX for sender operations)
    pub stream: u32,
    /// value id for sends
    pub val: u64,
    /// payload serial for sends (identity of the handed-back message)
    pub serial: u32,
    pub res: Res,
    /// new handle id (clone/add_stream/conversions)
    pub new_h: u32,
    /// new stream id (add_stream & co)
    pub new_stream: u32,
    /// serial handed back by a refused send (must equal `serial`)
    pub back_serial: u32,
    /// the call was made in solo mode (all other tasks frozen)
    pub solo: bool,
    /// own scheduling steps the call took
    pub own_steps: u32,
    /// in solo mode the call had to wait for a lock held by a frozen thread
    pub solo_blocked: bool,
    /// phase marker: 0 = concurrent phase, 1 = quiescent probe, 2 = teardown
    pub phase: u8,
}

pub const NO_STREAM: u32 = u32::MAX;
pub const NONE: u32 = u32::MAX;

pub struct Hist {
    pub clock: u64,
    pub recs: Vec<Rec>,
    pub phase: u8,
    pub notes: Vec<String>,
}

thread_local! {
    pub static HIST: RefCell<Hist> = RefCell::new(Hist { clock: 0, recs: Vec::new(), phase: 0, notes: Vec::new() });
}

pub fn reset() {
    HIST.with(|h| {
        let mut h = h.borrow_mut();
        h.clock = 0;
        h.recs.clear();
        h.phase = 0;
        h.notes.clear();
    })
}

pub fn set_phase(p: u8) {
    HIST.with(|h| h.borrow_mut().phase = p)
}

pub fn note(s: String) {
    HIST.with(|h| {
        let mut h = h.borrow_mut();
        if h.notes.len() < 32 {
            h.notes.push(s)
        }
    })
}

/// Record the invocation; returns the record index to be completed by `ret`.
pub fn invoke(task: usize, op: OpK, h: u32, stream: u32, val: u64, serial: u32) -> usize {
    HIST.with(|hh| {
        let mut hh = hh.borrow_mut();
        hh.clock += 1;
        let t = hh.clock;
        let phase = hh.phase;
        hh.recs.push(Rec {
            t_inv: t,
            t_ret: 0,
            task: task as u8,
            op,
            h,
            stream,
            val,
            serial,
            res: Res::Open,
            new_h: NONE,
            new_stream: NONE,
            back_serial: NONE,
            solo: false,
            own_steps: 0,
            solo_blocked: false,
            phase,
        });
        hh.recs.len() - 1
    })
}

pub fn ret(idx: usize, res: Res) {
    HIST.with(|hh| {
        let mut hh = hh.borrow_mut();
        hh.clock += 1;
        let t = hh.clock;
        let r = &mut hh.recs[idx];
        r.t_ret = t;
        r.res = res;
    })
}

pub fn update(idx: usize, f: impl FnOnce(&mut Rec)) {
    HIST.with(|hh| f(&mut hh.borrow_mut().recs[idx]))
}

pub fn take() -> (Vec<Rec>, Vec<String>) {
    HIST.with(|hh| {
        let mut hh = hh.borrow_mut();
        (std::mem::take(&mut hh.recs), std::mem::take(&mut hh.notes))
    })
}

pub fn fmt_rec(r: &Rec) -> String {
    let mut s = format!(
        "[{:>4}..{:>4}] t{} {}(h{}",
        r.t_inv,
        if r.t_ret == 0 { "    ".to_string() } else { r.t_ret.to_string() },
        r.task,
        r.op.name(),
        r.h
    );
    if r.stream != NO_STREAM {
        s.push_str(&format!(" s{}", r.stream));
    }
    if r.op.is_send() {
        s.push_str(&format!(" {}", crate::payload::fmt_id(r.val)));
    }
    s.push_str(&format!(") -> {}", r.res.name()));
    if r.new_h != NONE {
        s.push_str(&format!(" new=h{}", r.new_h));
    }
    if r.new_stream != NONE {
        s.push_str(&format!(" stream=s{}", r.new_stream));
    }
    if r.solo {
        s.push_str(&format!(" solo({} steps)", r.own_steps));
    }
    if r.phase == 1 {
        s.push_str(" [probe]");
    } else if r.phase == 2 {
        s.push_str(" [teardown]");
    }
    s
}

/// Digest of the whole history (replay must reproduce it exactly).
pub fn digest(recs: &[Rec]) -> u64 {
    let mut d: u64 = 0xcbf2_9ce4_8422_2325;
    let mut f = |x: u64| {
        d = multiqueue2_verif_rt::state::mix(d, x);
    };
    for r in recs {
        f(r.t_inv);
        f(r.t_ret);
        f(r.task as u64);
        f(r.op as u64);
        f(r.h as u64);
        f(r.stream as u64);
        f(r.val);
        f(match r.res {
            Res::Open => 1,
            Res::Ok => 2,
            Res::Val(v) => 3 ^ (v << 8),
            Res::Full => 4,
            Res::Disc => 5,
            Res::Empty => 6,
            Res::NotReady => 7,
            Res::End => 8,
            Res::Bool(b) => 9 + b as u64,
            Res::Panic => 11,
        });
        f(r.new_h as u64);
    }
    d
}
