//! Minimal JSON value, writer and parser (replay files, evidence, worker protocol).

use std::collections::BTreeMap;
use std::fmt::Write;

#[derive(Clone, Debug, PartialEq)]
pub enum J {
    Null,
    Bool(bool),
    Int(i64),
    UInt(u64),
    Num(f64),
    Str(String),
    Arr(Vec<J>),
    Obj(Vec<(String, J)>),
}

impl J {
    pub fn obj() -> J {
        J::Obj(Vec::new())
    }
    pub fn set(mut self, k: &str, v: J) -> J {
        if let J::Obj(ref mut m) = self {
            if let Some(e) = m.iter_mut().find(|(kk, _)| kk == k) {
                e.1 = v;
            } else {
                m.push((k.to_string(), v));
            }
        }
        self
    }
    pub fn put(&mut self, k: &str, v: J) {
        if let J::Obj(ref mut m) = self {
            if let Some(e) = m.iter_mut().find(|(kk, _)| kk == k) {
                e.1 = v;
            } else {
                m.push((k.to_string(), v));
            }
        }
    }
    pub fn get(&self, k: &str) -> Option<&J> {
        match self {
            J::Obj(m) => m.iter().find(|(kk, _)| kk == k).map(|(_, v)| v),
            _ => None,
        }
    }
    pub fn str(s: &str) -> J {
        J::Str(s.to_string())
    }
    pub fn as_str(&self) -> Option<&str> {
        match self {
            J::Str(s) => Some(s),
            _ => None,
        }
    }
    pub fn as_u64(&self) -> Option<u64> {
        match self {
            J::UInt(u) => Some(*u),
            J::Int(i) if *i >= 0 => Some(*i as u64),
            J::Num(f) if *f >= 0.0 => Some(*f as u64),
            _ => None,
        }
    }
    pub fn as_i64(&self) -> Option<i64> {
        match self {
            J::UInt(u) => Some(*u as i64),
            J::Int(i) => Some(*i),
            J::Num(f) => Some(*f as i64),
            _ => None,
        }
    }
    pub fn as_f64(&self) -> Option<f64> {
        match self {
            J::UInt(u) => Some(*u as f64),
            J::Int(i) => Some(*i as f64),
            J::Num(f) => Some(*f),
            _ => None,
        }
    }
    pub fn as_bool(&self) -> Option<bool> {
        match self {
            J::Bool(b) => Some(*b),
            _ => None,
        }
    }
    pub fn as_arr(&self) -> Option<&Vec<J>> {
        match self {
            J::Arr(a) => Some(a),
            _ => None,
        }
    }
    pub fn u(&self, k: &str) -> u64 {
        self.get(k).and_then(|v| v.as_u64()).unwrap_or(0)
    }
    pub fn s(&self, k: &str) -> &str {
        self.get(k).and_then(|v| v.as_str()).unwrap_or("")
    }
    pub fn from_map(m: &BTreeMap<String, u64>) -> J {
        J::Obj(m.iter().map(|(k, v)| (k.clone(), J::UInt(*v))).collect())
    }

    pub fn write(&self, out: &mut String) {
        match self {
            J::Null => out.push_str("null"),
            J::Bool(b) => out.push_str(if *b { "true" } else { "false" }),
            J::Int(i) => {
                let _ = write!(out, "{}", i);
            }
            J::UInt(u) => {
                let _ = write!(out, "{}", u);
            }
            J::Num(f) => {
                if f.is_finite() {
                    let _ = write!(out, "{}", f);
                    if f.fract() == 0.0 && !out.ends_with(|c: char| c == 'e' || c == '.') {
                        // keep it a JSON number; integers print without a dot, which is fine
                    }
                } else {
                    out.push_str("null");
                }
            }
            J::Str(s) => write_str(s, out),
            J::Arr(a) => {
                out.push('[');
                for (i, v) in a.iter().enumerate() {
                    if i > 0 {
                        out.push(',');
                    }
                    v.write(out);
                }
                out.push(']');
            }
            J::Obj(m) => {
                out.push('{');
                for (i, (k, v)) in m.iter().enumerate() {
                    if i > 0 {
                        out.push(',');
                    }
                    write_str(k, out);
                    out.push(':');
                    v.write(out);
                }
                out.push('}');
            }
        }
    }
    pub fn to_string(&self) -> String {
        let mut s = String::new();
        self.write(&mut s);
        s
    }
    pub fn pretty(&self) -> String {
        let mut s = String::new();
        self.write_pretty(&mut s, 0);
        s.push('\n');
        s
    }
    fn write_pretty(&self, out: &mut String, ind: usize) {
        match self {
            J::Arr(a) if !a.is_empty() && a.iter().any(|v| matches!(v, J::Arr(_) | J::Obj(_))) => {
                out.push_str("[\n");
                for (i, v) in a.iter().enumerate() {
                    for _ in 0..ind + 1 {
                        out.push(' ');
                    }
                    v.write_pretty(out, ind + 1);
                    if i + 1 < a.len() {
                        out.push(',');
                    }
                    out.push('\n');
                }
                for _ in 0..ind {
                    out.push(' ');
                }
                out.push(']');
            }
            J::Obj(m) if !m.is_empty() && ind < 3 => {
                out.push_str("{\n");
                for (i, (k, v)) in m.iter().enumerate() {
                    for _ in 0..ind + 1 {
                        out.push(' ');
                    }
                    write_str(k, out);
                    out.push_str(": ");
                    v.write_pretty(out, ind + 1);
                    if i + 1 < m.len() {
                        out.push(',');
                    }
                    out.push('\n');
                }
                for _ in 0..ind {
                    out.push(' ');
                }
                out.push('}');
            }
            _ => self.write(out),
        }
    }
}

fn write_str(s: &str, out: &mut String) {
    out.push('"');
    for c in s.chars() {
        match c {
            '"' => out.push_str("\\\""),
            '\\' => out.push_str("\\\\"),
            '\n' => out.push_str("\\n"),
            '\r' => out.push_str("\\r"),
            '\t' => out.push_str("\\t"),
            c if (c as u32) < 0x20 => {
                let _ = write!(out, "\\u{:04x}", c as u32);
            }
            c => out.push(c),
        }
    }
    out.push('"');
}

pub fn parse(s: &str) -> Result<J, String> {
    let b = s.as_bytes();
    let mut p = 0usize;
    let v = parse_val(b, &mut p)?;
    skip_ws(b, &mut p);
    if p != b.len() {
        return Err(format!("trailing data at {}", p));
    }
    Ok(v)
}

fn skip_ws(b: &[u8], p: &mut usize) {
    while *p < b.len() && (b[*p] == b' ' || b[*p] == b'\n' || b[*p] == b'\r' || b[*p] == b'\t') {
        *p += 1;
    }
}

fn parse_val(b: &[u8], p: &mut usize) -> Result<J, String> {
    skip_ws(b, p);
    if *p >= b.len() {
        return Err("unexpected end".into());
    }
    match b[*p] {
        b'{' => {
            *p += 1;
            let mut m = Vec::new();
            skip_ws(b, p);
            if *p < b.len() && b[*p] == b'}' {
                *p += 1;
                return Ok(J::Obj(m));
            }
            loop {
                skip_ws(b, p);
                let k = match parse_val(b, p)? {
                    J::Str(s) => s,
                    _ => return Err("object key must be a string".into()),
                };
                skip_ws(b, p);
                if *p >= b.len() || b[*p] != b':' {
                    return Err(format!("expected ':' at {}", p));
                }
                *p += 1;
                let v = parse_val(b, p)?;
                m.push((k, v));
                skip_ws(b, p);
                if *p < b.len() && b[*p] == b',' {
                    *p += 1;
                    continue;
                }
                if *p < b.len() && b[*p] == b'}' {
                    *p += 1;
                    return Ok(J::Obj(m));
                }
                return Err(format!("expected ',' or '}}' at {}", p));
            }
        }
        b'[' => {
            *p += 1;
            let mut a = Vec::new();
            skip_ws(b, p);
            if *p < b.len() && b[*p] == b']' {
                *p += 1;
                return Ok(J::Arr(a));
            }
            loop {
                a.push(parse_val(b, p)?);
                skip_ws(b, p);
                if *p < b.len() && b[*p] == b',' {
                    *p += 1;
                    continue;
                }
                if *p < b.len() && b[*p] == b']' {
                    *p += 1;
                    return Ok(J::Arr(a));
                }
                return Err(format!("expected ',' or ']' at {}", p));
            }
        }
        b'"' => {
            *p += 1;
            let mut s = String::new();
            loop {
                if *p >= b.len() {
                    return Err("unterminated string".into());
                }
                let c = b[*p];
                *p += 1;
                match c {
                    b'"' => return Ok(J::Str(s)),
                    b'\\' => {
                        if *p >= b.len() {
                            return Err("bad escape".into());
                        }
                        let e = b[*p];
                        *p += 1;
                        match e {
                            b'n' => s.push('\n'),
                            b'r' => s.push('\r'),
                            b't' => s.push('\t'),
                            b'b' => s.push('\u{8}'),
                            b'f' => s.push('\u{c}'),
                            b'u' => {
                                let h = std::str::from_utf8(&b[*p..*p + 4]).map_err(|e| e.to_string())?;
                                let cp = u32::from_str_radix(h, 16).map_err(|e| e.to_string())?;
                                *p += 4;
                                s.push(char::from_u32(cp).unwrap_or('?'));
                            }
                            other => s.push(other as char),
                        }
                    }
                    _ => {
                        // copy utf-8 bytes verbatim
                        let start = *p - 1;
                        let mut end = *p;
                        while end < b.len() && b[end] != b'"' && b[end] != b'\\' {
                            end += 1;
                        }
                        s.push_str(std::str::from_utf8(&b[start..end]).map_err(|e| e.to_string())?);
                        *p = end;
                    }
                }
            }
        }
        b't' if b[*p..].starts_with(b"true") => {
            *p += 4;
            Ok(J::Bool(true))
        }
        b'f' if b[*p..].starts_with(b"false") => {
            *p += 5;
            Ok(J::Bool(false))
        }
        b'n' if b[*p..].starts_with(b"null") => {
            *p += 4;
            Ok(J::Null)
        }
        _ => {
            let start = *p;
            while *p < b.len() && (b[*p] == b'-' || b[*p] == b'+' || b[*p] == b'.' || b[*p] == b'e' || b[*p] == b'E' || b[*p].is_ascii_digit()) {
                *p += 1;
            }
            let t = std::str::from_utf8(&b[start..*p]).map_err(|e| e.to_string())?;
            if t.is_empty() {
                return Err(format!("unexpected byte {} at {}", b[start], start));
            }
            if let Ok(u) = t.parse::<u64>() {
                Ok(J::UInt(u))
            } else if let Ok(i) = t.parse::<i64>() {
                Ok(J::Int(i))
            } else {
                t.parse::<f64>().map(J::Num).map_err(|e| e.to_string())
            }
        }
    }
}
