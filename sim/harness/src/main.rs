mod analysis;
mod driver;
mod exec;
mod families;
mod findings;
mod handles;
mod hist;
mod json;
mod minimise;
mod oracles;
mod payload;
mod pod;
mod prng;
mod props;
mod scenario;
mod sched;
mod seq;
mod worker;

use multiqueue2_verif_rt as rt;

#[global_allocator]
static GLOBAL: rt::galloc::SimAlloc = rt::galloc::SimAlloc;

use exec::{RunOutcome, RunSource};
use scenario::*;
use sched::SchedCfg;
use std::collections::BTreeMap;

struct Explore {
    prop: String,
    base: u64,
    i: u64,
    n: u64,
    cur: Option<(u64, Scenario, SchedCfg)>,
    ends: BTreeMap<String, u64>,
    classes: BTreeMap<String, u64>,
    shown: u64,
    max_show: u64,
    steps: u64,
    nontrivial: u64,
    harness: u64,
    verbose: bool,
}

impl RunSource for Explore {
    fn next(&mut self) -> Option<(Scenario, SchedCfg)> {
        if self.i >= self.n {
            return None;
        }
        let seed = prng::run_seed(self.base, props::salt(&self.prop), self.i);
        self.i += 1;
        let (s, c) = props::generate(&self.prop, seed, self.i - 1);
        self.cur = Some((seed, s.clone(), c.clone()));
        Some((s, c))
    }
    fn done(&mut self, o: RunOutcome) {
        let (seed, scn, cfg) = self.cur.take().unwrap();
        *self.ends.entry(format!("{}/{}", scn.family, o.end.name())).or_default() += 1;
        self.steps += o.stats.steps;
        let v = props::evaluate(&self.prop, &scn, &o);
        if v.nontrivial {
            self.nontrivial += 1;
        }
        if std::env::var("SHOW_STUCK").is_ok() && matches!(o.end, sched::End::Livelock | sched::End::Deadlock) && v.violations.is_empty() && self.shown < self.max_show {
            self.shown += 1;
            let a = analysis::Analysis::new(&o.recs, false);
            println!("STUCK run={} seed={} {}", self.i - 1, seed, oracles::stuck_info(&a, &o).text);
            println!("  scenario: {}", scn.to_json().to_string());
        }
        if let Some(e) = &v.harness_error {
            self.harness += 1;
            if self.shown < self.max_show {
                self.shown += 1;
                println!("HARNESS ERROR run={} seed={} : {}", self.i - 1, seed, e);
                println!("  scenario: {}", scn.to_json().to_string());
                println!("  sched: {}", scenario::sched_json(&cfg).to_string());
                for r in o.recs.iter().rev().take(30).rev() {
                    println!("    {}", hist::fmt_rec(r));
                }
            }
        }
        for x in &v.violations {
            *self.classes.entry(format!("{}.{} @{} [{}]", x.prop, x.class, x.site, scn.family)).or_default() += 1;
        }
        if !v.violations.is_empty() && self.shown < self.max_show {
            self.shown += 1;
            let x = &v.violations[0];
            println!("VIOLATION run={} seed={} {}.{} site={} end={}", self.i - 1, seed, x.prop, x.class, x.site, o.end.name());
            println!("  msg: {}", x.msg);
            println!("  tags: {:?}", x.tags);
            println!("  scenario: {}", scn.to_json().to_string());
            println!("  sched: {} steps={}", scenario::sched_json(&cfg).to_string(), o.stats.steps);
            if self.verbose {
                for r in &o.recs {
                    println!("    {}", hist::fmt_rec(r));
                }
                println!("  probes: {:?}", o.stats.probes.iter().enumerate().filter(|(_, c)| **c > 0).map(|(i, c)| format!("{}={}", rt::state::PROBE_NAMES[i], c)).collect::<Vec<_>>());
                println!("  schedule: {}", sched::rle(&o.record[..o.record.len().min(1500)]));
            }
        }
    }
}

fn main() {
    exec::init_process();
    let args: Vec<String> = std::env::args().collect();
    match args.get(1).map(|s| s.as_str()) {
        Some("explore") => {
            let prop = args.get(2).cloned().unwrap_or("C01".into());
            let n: u64 = args.get(3).and_then(|x| x.parse().ok()).unwrap_or(1000);
            let base: u64 = args.get(4).and_then(|x| x.parse().ok()).unwrap_or(1);
            let max_show: u64 = args.get(5).and_then(|x| x.parse().ok()).unwrap_or(3);
            let start: u64 = std::env::var("START").ok().and_then(|x| x.parse().ok()).unwrap_or(0);
            let mut e = Explore {
                prop,
                base,
                i: start,
                n,
                cur: None,
                ends: BTreeMap::new(),
                classes: BTreeMap::new(),
                shown: 0,
                max_show,
                steps: 0,
                nontrivial: 0,
                harness: 0,
                verbose: std::env::var("VERBOSE").is_ok(),
            };
            let t = std::time::Instant::now();
            exec::run_batch(&mut e);
            println!("runs={} steps={} nontrivial={} harness_errors={} in {:?}", e.i, e.steps, e.nontrivial, e.harness, t.elapsed());
            println!("ends: {:?}", e.ends);
            println!("violation classes: {:#?}", e.classes);
        }
        Some("worker") => {
            // sim worker <prop> <seed> <w> <nw> <n_runs> <budget_s> <digest_file> [indices_file]
            let g = |i: usize| args.get(i).cloned().unwrap_or_default();
            let indices = args.get(9).and_then(|p| std::fs::read_to_string(p).ok()).map(|t| t.lines().filter_map(|l| l.trim().parse().ok()).collect::<Vec<u64>>());
            let cfg = worker::WorkerCfg {
                prop: g(2),
                base_seed: g(3).parse().unwrap_or(driver::DEFAULT_SEED),
                w: g(4).parse().unwrap_or(0),
                nw: g(5).parse().unwrap_or(1),
                n_runs: g(6).parse().unwrap_or(0),
                budget_s: g(7).parse().unwrap_or(30.0),
                digest_file: args.get(8).cloned(),
                indices,
                max_violations: 4,
            };
            let j = worker::run_worker(&cfg);
            println!("{}", j.to_string());
        }
        Some("check") => {
            let prop = args.get(2).cloned().unwrap_or_default();
            let mut thorough = std::env::var("VERIF_TIER").map(|t| t == "thorough").unwrap_or(false);
            let mut seed = std::env::var("VERIF_SEED").ok().and_then(|s| s.parse().ok()).unwrap_or(driver::DEFAULT_SEED);
            let mut workers = std::thread::available_parallelism().map(|n| n.get() as u64).unwrap_or(4).min(16);
            let mut runs = None;
            let mut budget = None;
            let mut i = 3;
            while i < args.len() {
                match args[i].as_str() {
                    "--tier" => {
                        thorough = args.get(i + 1).map(|t| t == "thorough").unwrap_or(false);
                        i += 1;
                    }
                    "--seed" => {
                        seed = args.get(i + 1).and_then(|s| s.parse().ok()).unwrap_or(seed);
                        i += 1;
                    }
                    "--workers" => {
                        workers = args.get(i + 1).and_then(|s| s.parse().ok()).unwrap_or(workers);
                        i += 1;
                    }
                    "--runs" => {
                        runs = args.get(i + 1).and_then(|s| s.parse().ok());
                        i += 1;
                    }
                    "--budget" => {
                        budget = args.get(i + 1).and_then(|s| s.parse().ok());
                        i += 1;
                    }
                    "--replay" => {
                        let p = args.get(i + 1).cloned().unwrap_or_default();
                        std::process::exit(driver::run_replay(&p));
                    }
                    _ => {}
                }
                i += 1;
            }
            let code = driver::run_check(&driver::CheckArgs { prop, thorough, seed, workers, runs, budget });
            std::process::exit(code);
        }
        Some("minimise") => {
            // sim minimise <in.json> <out.json> <budget_s>
            let inp = args.get(2).cloned().unwrap_or_default();
            let outp = args.get(3).cloned().unwrap_or_default();
            let budget: u64 = args.get(4).and_then(|x| x.parse().ok()).unwrap_or(20);
            let txt = std::fs::read_to_string(&inp).unwrap_or_default();
            match json::parse(&txt).ok().and_then(|j| minimise::parse_failure(&j).ok()) {
                Some(f) => {
                    let m = minimise::minimise(&f, std::time::Duration::from_secs(budget), 200);
                    let _ = std::fs::write(&outp, m.pretty());
                }
                None => std::process::exit(2),
            }
        }
        Some("run-scenario") => {
            // sim run-scenario <replay.json>: run the stored scenario once with its scheduler
            // configuration (no recorded schedule); used to re-check a hang
            let p = args.get(2).cloned().unwrap_or_default();
            let txt = std::fs::read_to_string(&p).unwrap_or_default();
            let j = json::parse(&txt).unwrap_or(json::J::Null);
            let scn = j.get("scenario").and_then(|s| Scenario::from_json(s).ok());
            let cfg = j.get("sched").and_then(|s| scenario::sched_from(s).ok());
            match (scn, cfg) {
                (Some(s), Some(c)) => {
                    let o = minimise::run_single(&s, &c);
                    println!("end={}", o.end.name());
                }
                _ => std::process::exit(2),
            }
        }
        Some("replay") => {
            let p = args.get(2).cloned().unwrap_or_default();
            std::process::exit(driver::run_replay(&p));
        }
        _ => {
            eprintln!("usage: sim check <prop> [--tier quick|thorough] [--seed n] [--replay file] | sim replay <file> | sim explore <prop> <n> [seed] [max_show]");
            std::process::exit(2);
        }
    }
}
