mod exec;
mod handles;
mod hist;
mod json;
mod payload;
mod prng;
mod scenario;
mod sched;

use multiqueue2_verif_rt as rt;

#[global_allocator]
static GLOBAL: rt::galloc::SimAlloc = rt::galloc::SimAlloc;

use exec::{RunOutcome, RunSource};
use handles::{Flavour, QueueCfg, WaitK};
use scenario::*;
use sched::{SchedCfg, Strategy};

struct Smoke {
    i: u64,
    n: u64,
    done: u64,
    steps: u64,
    show: bool,
}

impl RunSource for Smoke {
    fn next(&mut self) -> Option<(Scenario, SchedCfg)> {
        if self.i >= self.n {
            return None;
        }
        self.i += 1;
        let q = QueueCfg { flavour: Flavour::Bcast, fut: false, cap_req: 2, wait: WaitK::Block(0, 0), fut_spins: None };
        let mut s = Scenario::new("smoke", q);
        s.setup.push(Op::AddStream { h: 1, new: 2 });
        s.threads.push(ThreadSpec { handles: vec![0], prog: vec![Op::Produce { h: 0, n: 5, api: SendApi::TrySend, max_retry: UNLIMITED }, Op::DropSender { h: 0 }], spawned: false });
        s.threads.push(ThreadSpec { handles: vec![1], prog: vec![Op::Consume { h: 1, api: RecvApi::Recv, quota: UNLIMITED, max_empty: UNLIMITED, after_end: 1 }], spawned: false });
        s.threads.push(ThreadSpec { handles: vec![2], prog: vec![Op::Consume { h: 2, api: RecvApi::TryRecv, quota: UNLIMITED, max_empty: UNLIMITED, after_end: 1 }], spawned: false });
        Some((s, SchedCfg::new(self.i, Strategy::Uniform)))
    }
    fn done(&mut self, o: RunOutcome) {
        self.done += 1;
        self.steps += o.stats.steps;
        if self.show || o.end != sched::End::Completed || !o.harness_errors.is_empty() || !o.ledger.is_empty() || !o.leaks.is_empty() {
            println!("end={:?} steps={} panic={:?} errs={:?} ledger={:?} leaks={:?} fin={:?}", o.end, o.stats.steps, o.panic_msg, o.harness_errors, o.ledger, o.leaks, o.fin);
            for r in &o.recs {
                println!("  {}", hist::fmt_rec(r));
            }
            self.show = false;
        }
    }
}

fn main() {
    exec::init_process();
    let n: u64 = std::env::args().nth(1).and_then(|x| x.parse().ok()).unwrap_or(1);
    let mut s = Smoke { i: 0, n, done: 0, steps: 0, show: true };
    let t = std::time::Instant::now();
    exec::run_batch(&mut s);
    println!("runs={} steps={} in {:?}", s.done, s.steps, t.elapsed());
}
