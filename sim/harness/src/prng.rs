//! One integer decides everything: SplitMix64 to derive per-run seeds, xoshiro256** for
//! the stream of choices inside a run.

#[derive(Clone, Debug)]
pub struct Rng {
    s: [u64; 4],
}

pub fn splitmix(x: &mut u64) -> u64 {
    *x = x.wrapping_add(0x9E37_79B9_7F4A_7C15);
    let mut z = *x;
    z = (z ^ (z >> 30)).wrapping_mul(0xBF58_476D_1CE4_E5B9);
    z = (z ^ (z >> 27)).wrapping_mul(0x94D0_49BB_1331_11EB);
    z ^ (z >> 31)
}

/// Seed of run `index` of a batch started with `base` for property/family `salt`.
pub fn run_seed(base: u64, salt: u64, index: u64) -> u64 {
    let mut x = base ^ salt.wrapping_mul(0xA24B_AED4_963E_E407);
    let a = splitmix(&mut x);
    let mut y = a ^ index.wrapping_mul(0x9FB2_1C65_1E98_DF25);
    splitmix(&mut y)
}

impl Rng {
    pub fn new(seed: u64) -> Rng {
        let mut x = seed;
        let s = [
            splitmix(&mut x),
            splitmix(&mut x),
            splitmix(&mut x),
            splitmix(&mut x),
        ];
        Rng { s }
    }
    #[inline]
    pub fn next(&mut self) -> u64 {
        let r = self.s[1].wrapping_mul(5).rotate_left(7).wrapping_mul(9);
        let t = self.s[1] << 17;
        self.s[2] ^= self.s[0];
        self.s[3] ^= self.s[1];
        self.s[1] ^= self.s[2];
        self.s[0] ^= self.s[3];
        self.s[2] ^= t;
        self.s[3] = self.s[3].rotate_left(45);
        r
    }
    /// uniform in 0..n (n > 0)
    #[inline]
    pub fn below(&mut self, n: u64) -> u64 {
        debug_assert!(n > 0);
        ((self.next() >> 11) as u128 * n as u128 >> 53) as u64
    }
    #[inline]
    pub fn range(&mut self, lo: u64, hi_incl: u64) -> u64 {
        lo + self.below(hi_incl - lo + 1)
    }
    #[inline]
    pub fn chance(&mut self, num: u64, den: u64) -> bool {
        self.below(den) < num
    }
    pub fn pick<'a, T>(&mut self, xs: &'a [T]) -> &'a T {
        &xs[self.below(xs.len() as u64) as usize]
    }
    pub fn fork(&mut self) -> Rng {
        Rng::new(self.next())
    }
}
