//! The checked payload and its ledger (C04, C05).
//!
//! `P` owns no heap memory, so even a real double drop or a torn read caused by a broken
//! tree corrupts nothing in the harness: it is only *recorded*.

use multiqueue2_verif_rt as rt;
use std::cell::RefCell;

#[derive(Debug)]
pub struct P {
    pub id: u64,
    pub inv: u64,
    pub serial: u32,
    pub exec: u32,
}

#[derive(Clone, Copy, Debug, PartialEq, Eq)]
pub enum Birth {
    Sent,
    CloneOf(u32),
}

#[derive(Clone, Copy, Debug)]
pub struct Entry {
    pub id: u64,
    pub birth: Birth,
    pub drops: u32,
    pub born_task: u8,
}

#[derive(Clone, Debug)]
pub struct LedgerViolation {
    pub class: &'static str,
    pub msg: String,
    pub serial: u32,
    pub task: usize,
    pub step: u64,
}

pub struct Ledger {
    pub exec: u32,
    pub entries: Vec<Entry>,
    pub violations: Vec<LedgerViolation>,
    pub slow_clone: u8,
    pub slow_view: u8,
    /// the destructor lingers (yields to the scheduler) before it takes effect
    pub slow_drop: u8,
    pub clones: u64,
    pub views: u64,
}

thread_local! {
    pub static LEDGER: RefCell<Ledger> = RefCell::new(Ledger {
        exec: 0, entries: Vec::new(), violations: Vec::new(), slow_clone: 0, slow_view: 0, slow_drop: 0, clones: 0, views: 0,
    });
}

pub fn reset(exec: u32, slow_clone: u8, slow_view: u8, slow_drop: u8) {
    LEDGER.with(|l| {
        let mut l = l.borrow_mut();
        l.exec = exec;
        l.entries.clear();
        l.violations.clear();
        l.slow_clone = slow_clone;
        l.slow_view = slow_view;
        l.slow_drop = slow_drop;
        l.clones = 0;
        l.views = 0;
    })
}

pub fn violation(class: &'static str, serial: u32, msg: String) {
    let (task, step) = rt::with(|r| (r.cur.get(), r.steps.get()));
    if rt::with(|r| r.trace.get()) {
        eprintln!("  !! ledger violation {} serial {} : {}", class, serial, msg);
    }
    LEDGER.with(|l| {
        let mut l = l.borrow_mut();
        if l.violations.len() < 16 {
            l.violations.push(LedgerViolation {
                class,
                msg,
                serial,
                task,
                step,
            });
        }
    })
}

pub fn make_id(producer: u32, seq: u32) -> u64 {
    ((producer as u64) << 32) | seq as u64
}
pub fn id_producer(id: u64) -> u32 {
    (id >> 32) as u32
}
pub fn id_seq(id: u64) -> u32 {
    id as u32
}
pub fn fmt_id(id: u64) -> String {
    format!("p{}#{}", id_producer(id), id_seq(id))
}

impl P {
    pub fn new(id: u64) -> P {
        let _g = rt::galloc::NoAttr::new();
        LEDGER.with(|l| {
            let mut l = l.borrow_mut();
            let serial = l.entries.len() as u32;
            let task = rt::with(|r| r.cur.get()) as u8;
            l.entries.push(Entry {
                id,
                birth: Birth::Sent,
                drops: 0,
                born_task: task,
            });
            P {
                id,
                inv: !id,
                serial,
                exec: l.exec,
            }
        })
    }

    /// Check that this is a complete, live value. `when` names the observation point.
    pub fn observe(&self, when: &'static str) -> bool {
        let _g = rt::galloc::NoAttr::new();
        // read the fields once (a torn slot may disagree with itself)
        // volatile: a shared reference promises the compiler an unchanging value; whether the
        // queue keeps that promise is what is being checked, so no load may be reused
        let (id, inv, serial, exec) = unsafe {
            (std::ptr::read_volatile(&self.id), std::ptr::read_volatile(&self.inv), std::ptr::read_volatile(&self.serial), std::ptr::read_volatile(&self.exec))
        };
        LEDGER.with(|l| {
            let cur_exec = l.borrow().exec;
            if exec != cur_exec || inv != !id {
                violation(
                    "torn",
                    serial,
                    format!(
                        "{}: payload is not a complete value (id={:#x} inv={:#x} serial={} exec={} current exec={})",
                        when, id, inv, serial, exec, cur_exec
                    ),
                );
                return false;
            }
            let e = l.borrow().entries.get(serial as usize).copied();
            match e {
                None => {
                    violation("torn", serial, format!("{}: unknown serial {}", when, serial));
                    false
                }
                Some(e) => {
                    if e.id != id {
                        violation(
                            "torn",
                            serial,
                            format!("{}: serial {} carries {} but was born as {}", when, serial, fmt_id(id), fmt_id(e.id)),
                        );
                        false
                    } else if e.drops != 0 {
                        violation(
                            "observed_dead",
                            serial,
                            format!("{}: {} (serial {}) was already dropped {} time(s)", when, fmt_id(id), serial, e.drops),
                        );
                        false
                    } else {
                        true
                    }
                }
            }
        })
    }
}

/// The value a clone or view started on was replaced in the meantime: if it was *destroyed*
/// on the way (a broadcast writer drops the old value before it overwrites the slot), the
/// observer has been reading a dead value (C04 `observed_dead`, C05 `use_after_drop`).
fn source_dropped_meanwhile(when: &'static str, id0: u64, serial0: u32) {
    let drops = LEDGER.with(|l| l.borrow().entries.get(serial0 as usize).map(|e| e.drops).unwrap_or(0));
    if drops != 0 {
        violation("observed_dead", serial0, format!("{}: {} (serial {}) was dropped {} time(s) while it was being looked at", when, fmt_id(id0), serial0, drops));
    }
}

impl Clone for P {
    fn clone(&self) -> P {
        let _g = rt::galloc::NoAttr::new();
        let ok = self.observe("clone start");
        let (id0, serial0) = (self.id, self.serial);
        let n = LEDGER.with(|l| {
            let mut l = l.borrow_mut();
            l.clones += 1;
            l.slow_clone
        });
        for _ in 0..n {
            rt::hooks::probe(rt::Probe::CloneMid as usize);
            rt::with(|r| r.fault(rt::Fault::SlowClone));
            rt::shim::user_point();
        }
        if ok {
            let (id1, serial1) = unsafe { (std::ptr::read_volatile(&self.id), std::ptr::read_volatile(&self.serial)) };
            if id1 != id0 || serial1 != serial0 {
                violation(
                    "changed_during_observation",
                    serial0,
                    format!(
                        "clone: source changed from {} (serial {}) to id={:#x} serial={} while being cloned",
                        fmt_id(id0),
                        serial0,
                        id1,
                        serial1
                    ),
                );
                source_dropped_meanwhile("clone end", id0, serial0);
            } else {
                self.observe("clone end");
            }
        }
        LEDGER.with(|l| {
            let mut l = l.borrow_mut();
            let serial = l.entries.len() as u32;
            let task = rt::with(|r| r.cur.get()) as u8;
            l.entries.push(Entry {
                id: id0,
                birth: Birth::CloneOf(serial0),
                drops: 0,
                born_task: task,
            });
            P {
                id: id0,
                inv: !id0,
                serial,
                exec: l.exec,
            }
        })
    }
}

impl Drop for P {
    fn drop(&mut self) {
        let _g = rt::galloc::NoAttr::new();
        if rt::with(|r| r.trace.get()) {
            eprintln!("  -- t{} drop {} serial {}", rt::with(|r| r.cur.get()), fmt_id(self.id), self.serial);
        }
        // a destructor of arbitrary duration: the value is looked at only after the pause,
        // so a slot that is overwritten while its old value is still being destroyed shows up
        // as a drop of the wrong value
        let n = LEDGER.try_with(|l| l.try_borrow().map(|l| l.slow_drop).unwrap_or(0)).unwrap_or(0);
        for _ in 0..n {
            rt::with(|r| r.fault(rt::Fault::SlowDrop));
            rt::shim::user_point();
        }
        let (id, inv, serial, exec) = (self.id, self.inv, self.serial, self.exec);
        let r = LEDGER.try_with(|l| {
            let mut l = match l.try_borrow_mut() {
                Ok(l) => l,
                Err(_) => return None,
            };
            if exec != l.exec {
                // a value of an earlier (aborted) execution, or garbage
                if inv == !id {
                    return None;
                }
                return Some(("torn", format!("drop of an incomplete value (id={:#x} inv={:#x})", id, inv)));
            }
            if inv != !id {
                return Some(("torn", format!("drop of an incomplete value (id={:#x} inv={:#x})", id, inv)));
            }
            match l.entries.get_mut(serial as usize) {
                None => Some(("torn", format!("drop of unknown serial {}", serial))),
                Some(e) => {
                    e.drops += 1;
                    if e.drops > 1 {
                        Some((
                            "double_drop",
                            format!("{} (serial {}, born {:?}) dropped {} times", fmt_id(id), serial, e.birth, e.drops),
                        ))
                    } else {
                        None
                    }
                }
            }
        });
        if let Ok(Some((class, msg))) = r {
            violation(class, serial, msg);
        }
    }
}

/// The view closure body: observe, optionally linger, observe again; returns the id.
pub fn view(p: &P) -> u64 {
    let _g = rt::galloc::NoAttr::new();
    let ok = p.observe("view start");
    let (id0, serial0) = (p.id, p.serial);
    let n = LEDGER.with(|l| {
        let mut l = l.borrow_mut();
        l.views += 1;
        l.slow_view
    });
    for _ in 0..n {
        rt::hooks::probe(rt::Probe::ViewMid as usize);
        rt::with(|r| r.fault(rt::Fault::SlowView));
        rt::shim::user_point();
    }
    if ok {
        let (id1, serial1) = unsafe { (std::ptr::read_volatile(&p.id), std::ptr::read_volatile(&p.serial)) };
        if id1 != id0 || serial1 != serial0 {
            violation(
                "changed_during_observation",
                serial0,
                format!("view: value changed from {} (serial {}) to id={:#x} serial={} during the closure", fmt_id(id0), serial0, id1, serial1),
            );
            source_dropped_meanwhile("view end", id0, serial0);
        } else {
            p.observe("view end");
        }
    }
    id0
}

/// After teardown: every entry must have been dropped exactly once.
pub fn leak_report() -> Vec<LedgerViolation> {
    LEDGER.with(|l| {
        let l = l.borrow();
        let mut out = Vec::new();
        for (serial, e) in l.entries.iter().enumerate() {
            if e.drops == 0 {
                out.push(LedgerViolation {
                    class: "leak",
                    msg: format!("{} (serial {}, born {:?} by task {}) was never dropped", fmt_id(e.id), serial, e.birth, e.born_task),
                    serial: serial as u32,
                    task: 0,
                    step: 0,
                });
                if out.len() >= 8 {
                    break;
                }
            }
        }
        out
    })
}

pub fn take_violations() -> Vec<LedgerViolation> {
    LEDGER.with(|l| std::mem::take(&mut l.borrow_mut().violations))
}

pub fn counts() -> (usize, u64, u64) {
    LEDGER.with(|l| {
        let l = l.borrow();
        (l.entries.len(), l.clones, l.views)
    })
}
