//! Sequential engine: one simulated thread issues a generated sequence of public API calls
//! and every return value is compared, operation by operation, with a small executable
//! reference model (one append-only log, one cursor per stream, a window of N, a sender
//! count). Futures handles are polled inside a real futures-0.1 task.

use crate::exec::{api_pub as api, ret_pub as ret, Shared};
use crate::handles::{Handle, OwnedIter, HK};
use crate::hist::{self, OpK, Res, NONE, NO_STREAM};
use crate::json::J;
use crate::payload::{self, fmt_id, P};
use crate::prng::Rng;
use futures::executor::{self, Notify, NotifyHandle};
use futures::{Async, AsyncSink, Poll};
use multiqueue2_verif_rt as rt;
use std::collections::BTreeMap;
use std::sync::mpsc::{TryRecvError, TrySendError};
use std::sync::Arc;

#[derive(Clone, PartialEq, Debug)]
pub enum SeqCall {
    TrySend { h: u32 },
    StartSend { h: u32 },
    PollComplete { h: u32 },
    TryRecv { h: u32 },
    Recv { h: u32 },
    TryRecvView { h: u32 },
    RecvView { h: u32 },
    TryIterNext { h: u32, with: bool },
    /// into_iter / iter_with: up to k next() calls (each only if the model says it cannot
    /// block), then the iterator (and with it the handle) is dropped
    IterTake { h: u32, with: bool, k: u32 },
    Poll { h: u32 },
    AddStream { h: u32, new: u32 },
    CloneRecv { h: u32, new: u32 },
    DropRecv { h: u32 },
    Unsub { h: u32 },
    IntoSingle { h: u32 },
    IntoMulti { h: u32 },
    Transform { h: u32 },
    CloneSender { h: u32, new: u32 },
    DropSender { h: u32 },
    UnsubSender { h: u32 },
    /// record (cycle, attributed live bytes) for the churn oracle (C17)
    Sample { cycle: u32 },
    Repeat { times: u32, body: Vec<SeqCall> },
}

impl SeqCall {
    pub fn to_json(&self) -> J {
        let u = |x: u32| J::UInt(x as u64);
        let a = |v: Vec<J>| J::Arr(v);
        match self {
            SeqCall::TrySend { h } => a(vec![J::str("try_send"), u(*h)]),
            SeqCall::StartSend { h } => a(vec![J::str("start_send"), u(*h)]),
            SeqCall::PollComplete { h } => a(vec![J::str("poll_complete"), u(*h)]),
            SeqCall::TryRecv { h } => a(vec![J::str("try_recv"), u(*h)]),
            SeqCall::Recv { h } => a(vec![J::str("recv"), u(*h)]),
            SeqCall::TryRecvView { h } => a(vec![J::str("try_recv_view"), u(*h)]),
            SeqCall::RecvView { h } => a(vec![J::str("recv_view"), u(*h)]),
            SeqCall::TryIterNext { h, with } => a(vec![J::str("try_iter_next"), u(*h), J::Bool(*with)]),
            SeqCall::IterTake { h, with, k } => a(vec![J::str("iter_take"), u(*h), J::Bool(*with), u(*k)]),
            SeqCall::Poll { h } => a(vec![J::str("poll"), u(*h)]),
            SeqCall::AddStream { h, new } => a(vec![J::str("add_stream"), u(*h), u(*new)]),
            SeqCall::CloneRecv { h, new } => a(vec![J::str("clone_recv"), u(*h), u(*new)]),
            SeqCall::DropRecv { h } => a(vec![J::str("drop_recv"), u(*h)]),
            SeqCall::Unsub { h } => a(vec![J::str("unsubscribe"), u(*h)]),
            SeqCall::IntoSingle { h } => a(vec![J::str("into_single"), u(*h)]),
            SeqCall::IntoMulti { h } => a(vec![J::str("into_multi"), u(*h)]),
            SeqCall::Transform { h } => a(vec![J::str("transform"), u(*h)]),
            SeqCall::CloneSender { h, new } => a(vec![J::str("clone_sender"), u(*h), u(*new)]),
            SeqCall::DropSender { h } => a(vec![J::str("drop_sender"), u(*h)]),
            SeqCall::UnsubSender { h } => a(vec![J::str("unsub_sender"), u(*h)]),
            SeqCall::Sample { cycle } => a(vec![J::str("sample"), u(*cycle)]),
            SeqCall::Repeat { times, body } => a(vec![J::str("repeat"), u(*times), J::Arr(body.iter().map(|c| c.to_json()).collect())]),
        }
    }
    pub fn from_json(j: &J) -> Result<SeqCall, String> {
        let a = j.as_arr().ok_or("seq call must be an array")?;
        let name = a.first().and_then(|x| x.as_str()).ok_or("seq call name")?;
        let u = |i: usize| -> Result<u32, String> { a.get(i).and_then(|x| x.as_u64()).map(|x| x as u32).ok_or_else(|| "seq field".to_string()) };
        let b = |i: usize| a.get(i).and_then(|x| x.as_bool()).unwrap_or(false);
        Ok(match name {
            "try_send" => SeqCall::TrySend { h: u(1)? },
            "start_send" => SeqCall::StartSend { h: u(1)? },
            "poll_complete" => SeqCall::PollComplete { h: u(1)? },
            "try_recv" => SeqCall::TryRecv { h: u(1)? },
            "recv" => SeqCall::Recv { h: u(1)? },
            "try_recv_view" => SeqCall::TryRecvView { h: u(1)? },
            "recv_view" => SeqCall::RecvView { h: u(1)? },
            "try_iter_next" => SeqCall::TryIterNext { h: u(1)?, with: b(2) },
            "iter_take" => SeqCall::IterTake { h: u(1)?, with: b(2), k: u(3)? },
            "poll" => SeqCall::Poll { h: u(1)? },
            "add_stream" => SeqCall::AddStream { h: u(1)?, new: u(2)? },
            "clone_recv" => SeqCall::CloneRecv { h: u(1)?, new: u(2)? },
            "drop_recv" => SeqCall::DropRecv { h: u(1)? },
            "unsubscribe" => SeqCall::Unsub { h: u(1)? },
            "into_single" => SeqCall::IntoSingle { h: u(1)? },
            "into_multi" => SeqCall::IntoMulti { h: u(1)? },
            "transform" => SeqCall::Transform { h: u(1)? },
            "clone_sender" => SeqCall::CloneSender { h: u(1)?, new: u(2)? },
            "drop_sender" => SeqCall::DropSender { h: u(1)? },
            "unsub_sender" => SeqCall::UnsubSender { h: u(1)? },
            "sample" => SeqCall::Sample { cycle: u(1)? },
            "repeat" => SeqCall::Repeat {
                times: u(1)?,
                body: a.get(2).and_then(|x| x.as_arr()).ok_or("repeat body")?.iter().map(SeqCall::from_json).collect::<Result<Vec<_>, _>>()?,
            },
            other => return Err(format!("unknown seq call {}", other)),
        })
    }
}

// ------------------------------------------------------------------------- model

#[derive(Clone, Copy, PartialEq, Eq, Debug)]
pub enum Kind {
    Sender,
    Multi,
    Uni,
}

#[derive(Clone, Debug)]
pub struct MHandle {
    pub kind: Kind,
    pub stream: u32,
}

#[derive(Clone, Debug)]
pub struct Model {
    pub n: usize,
    pub fut: bool,
    pub bcast: bool,
    pub log: Vec<u64>,
    /// stream -> (position, handles)
    pub streams: BTreeMap<u32, (usize, usize)>,
    pub senders: usize,
    pub no_receiver: bool,
    pub handles: BTreeMap<u32, MHandle>,
}

#[derive(Clone, Copy, PartialEq, Eq, Debug)]
pub enum MSend {
    Ok,
    Full,
    Disc,
}
#[derive(Clone, Copy, PartialEq, Eq, Debug)]
pub enum MRecv {
    Val(u64),
    Empty,
    End,
}

impl Model {
    pub fn new(n: usize, fut: bool, bcast: bool) -> Model {
        let mut m = Model {
            n,
            fut,
            bcast,
            log: Vec::new(),
            streams: BTreeMap::new(),
            senders: 1,
            no_receiver: false,
            handles: BTreeMap::new(),
        };
        m.streams.insert(0, (0, 1));
        m.handles.insert(0, MHandle { kind: Kind::Sender, stream: NO_STREAM });
        m.handles.insert(1, MHandle { kind: Kind::Multi, stream: 0 });
        m
    }
    pub fn send_result(&self) -> MSend {
        if self.no_receiver || self.streams.is_empty() {
            return MSend::Disc;
        }
        let min = self.streams.values().map(|s| s.0).min().unwrap();
        if self.log.len() - min >= self.n {
            MSend::Full
        } else {
            MSend::Ok
        }
    }
    pub fn send(&mut self, val: u64) -> MSend {
        let r = self.send_result();
        if r == MSend::Ok {
            self.log.push(val);
        }
        r
    }
    pub fn recv_result(&self, stream: u32) -> MRecv {
        let (pos, _) = self.streams[&stream];
        if pos < self.log.len() {
            MRecv::Val(self.log[pos])
        } else if self.senders == 0 {
            MRecv::End
        } else {
            MRecv::Empty
        }
    }
    pub fn recv(&mut self, stream: u32) -> MRecv {
        let r = self.recv_result(stream);
        if let MRecv::Val(_) = r {
            self.streams.get_mut(&stream).unwrap().0 += 1;
        }
        r
    }
    pub fn would_block(&self, stream: u32) -> bool {
        self.recv_result(stream) == MRecv::Empty
    }
    pub fn drop_recv(&mut self, h: u32) -> bool {
        let mh = self.handles.remove(&h).unwrap();
        let e = self.streams.get_mut(&mh.stream).unwrap();
        let last = e.1 == 1;
        e.1 -= 1;
        if e.1 == 0 {
            self.streams.remove(&mh.stream);
            if self.streams.is_empty() {
                self.no_receiver = true;
            }
        }
        last
    }
    pub fn stream_handles(&self, stream: u32) -> usize {
        self.streams.get(&stream).map(|s| s.1).unwrap_or(0)
    }
}

// ------------------------------------------------------------------------ executor

struct NoopNotify;
impl Notify for NoopNotify {
    fn notify(&self, _id: usize) {}
}

fn in_task<R>(nh: &NotifyHandle, f: impl FnOnce() -> R) -> R {
    let mut f = Some(f);
    let mut out = None;
    {
        let mut sp = executor::spawn(futures::future::poll_fn(|| -> Poll<(), ()> {
            out = Some((f.take().unwrap())());
            Ok(Async::Ready(()))
        }));
        let _ = sp.poll_future_notify(nh, 0);
    }
    out.unwrap()
}

pub struct SeqViolation {
    pub class: String,
    pub site: String,
    pub msg: String,
}

pub struct SeqRun<'a> {
    pub sh: &'a Shared,
    pub model: Model,
    pub handles: BTreeMap<u32, Handle>,
    pub violations: Vec<SeqViolation>,
    pub aborted: bool,
    pub calls: u64,
    pub samples: Vec<(u32, i64)>,
    nh: NotifyHandle,
    cycle: u32,
}

fn rname(r: MRecv) -> String {
    match r {
        MRecv::Val(v) => format!("Val({})", fmt_id(v)),
        MRecv::Empty => "Empty".into(),
        MRecv::End => "end-of-stream".into(),
    }
}

impl<'a> SeqRun<'a> {
    pub fn new(sh: &'a Shared, tx: HK, rx: HK) -> SeqRun<'a> {
        let q = &sh.scn.queue;
        let mut handles = BTreeMap::new();
        handles.insert(0, Handle { id: 0, stream: NO_STREAM, seq: 0, k: tx });
        handles.insert(1, Handle { id: 1, stream: 0, seq: 0, k: rx });
        SeqRun {
            sh,
            model: Model::new(q.capacity() as usize, q.fut, q.flavour == crate::handles::Flavour::Bcast),
            handles,
            violations: Vec::new(),
            aborted: false,
            calls: 0,
            samples: Vec::new(),
            nh: NotifyHandle::from(Arc::new(NoopNotify)),
            cycle: 0,
        }
    }

    fn mismatch(&mut self, site: &str, msg: String) {
        self.violations.push(SeqViolation {
            class: "return_mismatch".into(),
            site: site.to_string(),
            msg,
        });
        self.aborted = true;
    }

    pub fn run(&mut self, calls: &[SeqCall]) {
        for c in calls {
            if self.aborted {
                return;
            }
            match c {
                SeqCall::Repeat { times, body } => {
                    for i in 0..*times {
                        if self.aborted {
                            return;
                        }
                        self.cycle = i;
                        self.run(body);
                    }
                }
                other => {
                    self.one(other);
                    // single-threaded: a call that came back is progress of the workload,
                    // whatever it returned (a long run of Empty / None results is not a
                    // livelock; only a call that never returns is)
                    crate::exec::bounded_tick();
                }
            }
        }
    }

    fn next_value(&mut self, h: u32) -> P {
        let hd = self.handles.get_mut(&h).unwrap();
        let seq = hd.seq;
        hd.seq += 1;
        P::new(payload::make_id(h, seq))
    }

    fn kind_ok(&self, h: u32, want_sender: bool) -> bool {
        match (self.handles.get(&h), self.model.handles.get(&h)) {
            (Some(hd), Some(_)) => hd.k.is_sender() == want_sender,
            _ => false,
        }
    }

    fn check_recv(&mut self, site: &str, h: u32, got: MRecv, exp: MRecv) {
        if got != exp {
            self.mismatch(site, format!("{}(h{}) returned {} but the model predicts {}", site, h, rname(got), rname(exp)));
        }
    }

    fn one(&mut self, c: &SeqCall) {
        self.calls += 1;
        match c {
            SeqCall::TrySend { h } | SeqCall::StartSend { h } => {
                let sink = matches!(c, SeqCall::StartSend { .. });
                if !self.kind_ok(*h, true) || (sink && !self.handles[h].k.is_fut()) {
                    return;
                }
                let p = self.next_value(*h);
                let (id, serial) = (p.id, p.serial);
                let exp = self.model.send(id);
                let site = if sink { "start_send" } else { "try_send" };
                let (idx, got, back) = if sink {
                    let nh = self.nh.clone();
                    let hd = self.handles.get_mut(h).unwrap();
                    let k = &mut hd.k;
                    let (idx, r) = api(OpK::StartSend, *h, NO_STREAM, id, serial, || in_task(&nh, || k.start_send(p)));
                    match r {
                        Ok(AsyncSink::Ready) => (idx, MSend::Ok, None),
                        Ok(AsyncSink::NotReady(b)) => (idx, MSend::Full, Some(b)),
                        Err(e) => (idx, MSend::Disc, Some(e.0)),
                    }
                } else {
                    let hd = self.handles.get(h).unwrap();
                    let (idx, r) = api(OpK::TrySend, *h, NO_STREAM, id, serial, || hd.k.try_send(p));
                    match r {
                        Ok(()) => (idx, MSend::Ok, None),
                        Err(TrySendError::Full(b)) => (idx, MSend::Full, Some(b)),
                        Err(TrySendError::Disconnected(b)) => (idx, MSend::Disc, Some(b)),
                    }
                };
                if let Some(b) = &back {
                    hist::update(idx, |r| r.back_serial = b.serial);
                    if b.serial != serial || b.id != id {
                        self.mismatch(site, format!("{}(h{}) handed back a different message (serial {} instead of {})", site, h, b.serial, serial));
                    }
                }
                drop(back);
                ret(
                    idx,
                    match got {
                        MSend::Ok => Res::Ok,
                        MSend::Full => {
                            if sink {
                                Res::NotReady
                            } else {
                                Res::Full
                            }
                        }
                        MSend::Disc => Res::Disc,
                    },
                );
                if got != exp {
                    let nm = |x: MSend| match (x, sink) {
                        (MSend::Ok, false) => "Ok",
                        (MSend::Ok, true) => "Ready",
                        (MSend::Full, false) => "Full",
                        (MSend::Full, true) => "NotReady",
                        (MSend::Disc, false) => "Disconnected",
                        (MSend::Disc, true) => "Err(SendError)",
                    };
                    self.mismatch(
                        site,
                        format!(
                            "{}(h{}, {}) returned {} but the model predicts {} (log {}, window {}, streams {:?}, no_receiver {})",
                            site,
                            h,
                            fmt_id(id),
                            nm(got),
                            nm(exp),
                            self.model.log.len(),
                            self.model.n,
                            self.model.streams,
                            self.model.no_receiver
                        ),
                    );
                }
            }
            SeqCall::PollComplete { h } => {
                if !self.kind_ok(*h, true) || !self.handles[h].k.is_fut() {
                    return;
                }
                let nh = self.nh.clone();
                let hd = self.handles.get_mut(h).unwrap();
                let k = &mut hd.k;
                let (idx, r) = api(OpK::PollComplete, *h, NO_STREAM, 0, NONE, || in_task(&nh, || k.poll_complete()));
                let ok = matches!(r, Ok(Async::Ready(())));
                ret(idx, if ok { Res::Ok } else { Res::NotReady });
                if !ok {
                    self.mismatch("poll_complete", format!("poll_complete(h{}) did not return Ready", h));
                }
            }
            SeqCall::TryRecv { h } | SeqCall::TryRecvView { h } => {
                let view = matches!(c, SeqCall::TryRecvView { .. });
                if !self.kind_ok(*h, false) || (view && !self.handles[h].k.is_plain_uni()) {
                    return;
                }
                let stream = self.model.handles[h].stream;
                let exp = self.model.recv(stream);
                let hd = self.handles.get_mut(h).unwrap();
                let (opk, site) = if view { (OpK::TryRecvView, "try_recv_view") } else { (OpK::TryRecv, "try_recv") };
                let (idx, r) = api(opk, *h, stream, 0, NONE, || if view { hd.k.try_recv_view() } else { hd.k.try_recv() });
                let got = match r {
                    Ok(v) => MRecv::Val(v),
                    Err(TryRecvError::Empty) => MRecv::Empty,
                    Err(TryRecvError::Disconnected) => MRecv::End,
                };
                ret(idx, to_res(got));
                self.check_recv(site, *h, got, exp);
            }
            SeqCall::Recv { h } | SeqCall::RecvView { h } => {
                let view = matches!(c, SeqCall::RecvView { .. });
                if !self.kind_ok(*h, false) || (view && !self.handles[h].k.is_plain_uni()) {
                    return;
                }
                let stream = self.model.handles[h].stream;
                if self.model.would_block(stream) {
                    // single-threaded: nobody could ever wake this call
                    return;
                }
                let exp = self.model.recv(stream);
                let hd = self.handles.get_mut(h).unwrap();
                let (opk, site) = if view { (OpK::RecvView, "recv_view") } else { (OpK::Recv, "recv") };
                let (idx, r) = api(opk, *h, stream, 0, NONE, || if view { hd.k.recv_view() } else { hd.k.recv() });
                let got = match r {
                    Ok(v) => MRecv::Val(v),
                    Err(_) => MRecv::End,
                };
                ret(idx, to_res(got));
                self.check_recv(site, *h, got, exp);
            }
            SeqCall::TryIterNext { h, with } => {
                if !self.kind_ok(*h, false) || self.handles[h].k.is_fut() || (*with && !self.handles[h].k.is_plain_uni()) {
                    return;
                }
                let stream = self.model.handles[h].stream;
                let exp = self.model.recv(stream);
                let hd = self.handles.get_mut(h).unwrap();
                let opk = if *with { OpK::TryIterWithNext } else { OpK::TryIterNext };
                let (idx, r) = api(opk, *h, stream, 0, NONE, || hd.k.try_iter_next(*with));
                ret(idx, match r {
                    Some(v) => Res::Val(v),
                    None => Res::Empty,
                });
                // None stands for Empty as well as for the end
                let ok = match (r, exp) {
                    (Some(a), MRecv::Val(b)) => a == b,
                    (None, MRecv::Empty) | (None, MRecv::End) => true,
                    _ => false,
                };
                if !ok {
                    self.mismatch("try_iter.next", format!("try_iter.next(h{}) returned {:?} but the model predicts {}", h, r.map(fmt_id), rname(exp)));
                }
            }
            SeqCall::IterTake { h, with, k } => {
                if !self.kind_ok(*h, false) || self.handles[h].k.is_fut() || (*with && !self.handles[h].k.is_plain_uni()) {
                    return;
                }
                let stream = self.model.handles[h].stream;
                let hd = self.handles.remove(h).unwrap();
                let mut it = OwnedIter::new(hd.k, *with);
                let opk = if *with { OpK::IterWithNext } else { OpK::IterNext };
                for _ in 0..*k {
                    if self.model.would_block(stream) || self.aborted {
                        break;
                    }
                    let exp = self.model.recv(stream);
                    let (idx, r) = api(opk, *h, stream, 0, NONE, || it.next());
                    let got = match r {
                        Some(v) => MRecv::Val(v),
                        None => MRecv::End,
                    };
                    ret(idx, to_res(got));
                    self.check_recv("iter.next", *h, got, exp);
                }
                let (idx, _) = api(OpK::DropRecv, *h, stream, 0, NONE, move || drop(it));
                ret(idx, Res::Ok);
                self.model.drop_recv(*h);
            }
            SeqCall::Poll { h } => {
                if !self.kind_ok(*h, false) || !self.handles[h].k.is_fut() {
                    return;
                }
                let stream = self.model.handles[h].stream;
                let exp = self.model.recv(stream);
                let nh = self.nh.clone();
                let hd = self.handles.get_mut(h).unwrap();
                let k = &mut hd.k;
                let me = rt::with(|r| r.cur.get());
                let s0 = rt::with(|r| r.task_steps[me].get());
                let (idx, r) = api(OpK::Poll, *h, stream, 0, NONE, || in_task(&nh, || k.poll()));
                let s1 = rt::with(|r| r.task_steps[me].get());
                hist::update(idx, |r| r.own_steps = (s1 - s0) as u32);
                let got = match r {
                    Ok(Async::Ready(Some(v))) => MRecv::Val(v),
                    Ok(Async::Ready(None)) => MRecv::End,
                    Ok(Async::NotReady) => MRecv::Empty,
                    Err(()) => MRecv::End,
                };
                ret(idx, match got {
                    MRecv::Val(v) => Res::Val(v),
                    MRecv::Empty => Res::NotReady,
                    MRecv::End => Res::End,
                });
                if got != exp {
                    let nm = |x: MRecv| match x {
                        MRecv::Val(v) => format!("Ready(Some({}))", fmt_id(v)),
                        MRecv::Empty => "NotReady".to_string(),
                        MRecv::End => "Ready(None)".to_string(),
                    };
                    self.mismatch("poll", format!("poll(h{}) returned {} but the model predicts {}", h, nm(got), nm(exp)));
                }
            }
            SeqCall::AddStream { h, new } => {
                if !self.kind_ok(*h, false) || !self.handles[h].k.can_add_stream() || self.handles.contains_key(new) {
                    return;
                }
                let mh = self.model.handles[h].clone();
                let pos = self.model.streams[&mh.stream].0;
                let hd = self.handles.get(h).unwrap();
                let (idx, k) = api(OpK::AddStream, *h, mh.stream, 0, NONE, || hd.k.add_stream());
                hist::update(idx, |r| {
                    r.new_h = *new;
                    r.new_stream = *new;
                });
                ret(idx, Res::Ok);
                let kind = if k.is_uni() { Kind::Uni } else { Kind::Multi };
                self.handles.insert(*new, Handle { id: *new, stream: *new, seq: 0, k });
                self.model.streams.insert(*new, (pos, 1));
                self.model.handles.insert(*new, MHandle { kind, stream: *new });
            }
            SeqCall::CloneRecv { h, new } => {
                if !self.kind_ok(*h, false) || !self.handles[h].k.can_clone_recv() || self.handles.contains_key(new) {
                    return;
                }
                let mh = self.model.handles[h].clone();
                let hd = self.handles.get(h).unwrap();
                let (idx, k) = api(OpK::CloneRecv, *h, mh.stream, 0, NONE, || hd.k.clone_recv());
                hist::update(idx, |r| r.new_h = *new);
                ret(idx, Res::Ok);
                self.handles.insert(*new, Handle { id: *new, stream: mh.stream, seq: 0, k });
                self.model.streams.get_mut(&mh.stream).unwrap().1 += 1;
                self.model.handles.insert(*new, mh);
            }
            SeqCall::DropRecv { h } => {
                if !self.kind_ok(*h, false) {
                    return;
                }
                let stream = self.model.handles[h].stream;
                let hd = self.handles.remove(h).unwrap();
                let (idx, _) = api(OpK::DropRecv, *h, stream, 0, NONE, move || drop(hd));
                ret(idx, Res::Ok);
                self.model.drop_recv(*h);
            }
            SeqCall::Unsub { h } => {
                if !self.kind_ok(*h, false) {
                    return;
                }
                let stream = self.model.handles[h].stream;
                let hd = self.handles.remove(h).unwrap();
                let (idx, b) = api(OpK::Unsub, *h, stream, 0, NONE, move || hd.k.unsubscribe());
                let exp = self.model.drop_recv(*h);
                ret(idx, match b {
                    Some(b) => Res::Bool(b),
                    None => Res::Ok,
                });
                if let Some(b) = b {
                    if b != exp {
                        self.mismatch("unsubscribe", format!("unsubscribe(h{}) returned {} but the handle was {}the last one on its stream", h, b, if exp { "" } else { "not " }));
                    }
                }
            }
            SeqCall::IntoSingle { h } => {
                if !self.kind_ok(*h, false) || !self.handles[h].k.can_clone_recv() {
                    return;
                }
                let stream = self.model.handles[h].stream;
                let exp = self.model.stream_handles(stream) == 1;
                let Handle { id, stream: hs, seq, k } = self.handles.remove(h).unwrap();
                let (idx, r) = api(OpK::IntoSingle, *h, stream, 0, NONE, move || k.into_single());
                let (k, ok) = match r {
                    Ok(k) => (k, true),
                    Err(k) => (k, false),
                };
                ret(idx, Res::Bool(ok));
                self.handles.insert(id, Handle { id, stream: hs, seq, k });
                if ok {
                    self.model.handles.get_mut(h).unwrap().kind = Kind::Uni;
                }
                if ok != exp {
                    self.mismatch("into_single", format!("into_single(h{}) {} although the stream has {} handle(s)", h, if ok { "succeeded" } else { "failed" }, self.model.stream_handles(stream)));
                }
            }
            SeqCall::IntoMulti { h } | SeqCall::Transform { h } => {
                let tr = matches!(c, SeqCall::Transform { .. });
                if !self.kind_ok(*h, false) || !self.handles[h].k.is_uni() || (tr && !self.handles[h].k.is_fut()) {
                    return;
                }
                let stream = self.model.handles[h].stream;
                let Handle { id, stream: hs, seq, k } = self.handles.remove(h).unwrap();
                let (idx, k) = api(if tr { OpK::Transform } else { OpK::IntoMulti }, *h, stream, 0, NONE, move || if tr { k.transform() } else { k.into_multi() });
                ret(idx, Res::Ok);
                self.handles.insert(id, Handle { id, stream: hs, seq, k });
                if !tr {
                    self.model.handles.get_mut(h).unwrap().kind = Kind::Multi;
                }
            }
            SeqCall::CloneSender { h, new } => {
                if !self.kind_ok(*h, true) || self.handles.contains_key(new) {
                    return;
                }
                let hd = self.handles.get(h).unwrap();
                let (idx, k) = api(OpK::CloneSender, *h, NO_STREAM, 0, NONE, || hd.k.clone_sender());
                hist::update(idx, |r| r.new_h = *new);
                ret(idx, Res::Ok);
                self.handles.insert(*new, Handle { id: *new, stream: NO_STREAM, seq: 0, k });
                self.model.handles.insert(*new, MHandle { kind: Kind::Sender, stream: NO_STREAM });
                self.model.senders += 1;
            }
            SeqCall::DropSender { h } | SeqCall::UnsubSender { h } => {
                if !self.kind_ok(*h, true) {
                    return;
                }
                let unsub = matches!(c, SeqCall::UnsubSender { .. });
                let hd = self.handles.remove(h).unwrap();
                let (idx, _) = api(if unsub { OpK::UnsubSender } else { OpK::DropSender }, *h, NO_STREAM, 0, NONE, move || {
                    if unsub {
                        hd.k.unsubscribe();
                    } else {
                        drop(hd)
                    }
                });
                ret(idx, Res::Ok);
                self.model.handles.remove(h);
                self.model.senders -= 1;
            }
            SeqCall::Sample { cycle } => {
                let c = if *cycle == u32::MAX { self.cycle } else { *cycle };
                self.samples.push((c, rt::galloc::live_bytes()));
                if c % 100 == 0 && std::env::var_os("VERIF_DEBUG").is_some() {
                    let mut m: BTreeMap<&'static str, (usize, usize)> = BTreeMap::new();
                    rt::with(|r| {
                        for b in r.live.borrow().values() {
                            let e = m.entry(rt::state::short_ty(b.ty)).or_default();
                            e.0 += 1;
                            e.1 += b.len;
                        }
                    });
                    eprintln!("cycle {} live_bytes {} blocks {} seam {:?} sizes {:?}", c, rt::galloc::live_bytes(), rt::galloc::live_blocks(), m, {
                        let mut h: BTreeMap<usize, usize> = BTreeMap::new();
                        for s in rt::galloc::survivors() {
                            *h.entry(s).or_default() += 1;
                        }
                        h
                    });
                }
            }
            SeqCall::Repeat { .. } => unreachable!(),
        }
    }
}

fn to_res(r: MRecv) -> Res {
    match r {
        MRecv::Val(v) => Res::Val(v),
        MRecv::Empty => Res::Empty,
        MRecv::End => Res::End,
    }
}

// ----------------------------------------------------------------------- generator

pub struct SeqOpts {
    pub len_max: u64,
    /// generate a second stream on an mpmc queue through MPMCFutUniReceiver::add_stream_with
    /// (hazardous sub-family `mpmc second stream`, C05 only)
    pub mpmc_second_stream: bool,
    pub fut_bias: u64, // per 100
    pub churn: bool,
    /// end the sequence by removing every receiver and then sending on every sender (C13)
    pub norecv: bool,
}

/// Generate a call sequence by running the model alone (so that handle kinds, validity and
/// "would block" are known); the executor re-checks all of it against its own model.
pub fn gen_calls(r: &mut Rng, q: &crate::handles::QueueCfg, o: &SeqOpts) -> Vec<SeqCall> {
    let bcast = q.flavour == crate::handles::Flavour::Bcast;
    let mut m = Model::new(q.capacity() as usize, q.fut, bcast);
    let len = if r.chance(1, 4) { r.range(5, 25) } else { r.range(20, o.len_max.max(21)) };
    // swarm weights: some runs never clone, some only churn streams, some keep the queue
    // near full, some near empty
    let mut w = [0u64; 12];
    for x in w.iter_mut() {
        *x = if r.chance(1, 5) { 0 } else { r.range(1, 10) };
    }
    let (w_send, w_recv, w_view, w_iter, w_poll, w_add, w_clone_r, w_drop_r, w_conv, w_clone_s, w_drop_s, w_sink) =
        (w[0] + 4, w[1] + 3, w[2], w[3], w[4] + if q.fut { 4 } else { 0 }, w[5], w[6], w[7] / 2, w[8], w[9] / 2, w[10] / 3, w[11] + if q.fut { 3 } else { 0 });
    let mut next_h = 2u32;
    let mut calls = Vec::new();
    let mut seqno: BTreeMap<u32, u32> = BTreeMap::new();
    for _ in 0..len {
        let senders: Vec<u32> = m.handles.iter().filter(|(_, h)| h.kind == Kind::Sender).map(|(i, _)| *i).collect();
        let recvs: Vec<u32> = m.handles.iter().filter(|(_, h)| h.kind != Kind::Sender).map(|(i, _)| *i).collect();
        if senders.is_empty() && recvs.is_empty() {
            break;
        }
        let total = w_send + w_recv + w_view + w_iter + w_poll + w_add + w_clone_r + w_drop_r + w_conv + w_clone_s + w_drop_s + w_sink;
        let mut x = r.below(total.max(1));
        let mut pick = 0;
        for (i, wt) in [w_send, w_recv, w_view, w_iter, w_poll, w_add, w_clone_r, w_drop_r, w_conv, w_clone_s, w_drop_s, w_sink].iter().enumerate() {
            if x < *wt {
                pick = i;
                break;
            }
            x -= wt;
        }
        let mut val_for = |h: u32, seqno: &mut BTreeMap<u32, u32>| {
            let e = seqno.entry(h).or_insert(0);
            let v = payload::make_id(h, *e);
            *e += 1;
            v
        };
        match pick {
            0 | 11 => {
                if let Some(&h) = senders.get(r.below(senders.len().max(1) as u64) as usize) {
                    let v = val_for(h, &mut seqno);
                    m.send(v);
                    if pick == 11 && q.fut {
                        calls.push(SeqCall::StartSend { h });
                        if r.chance(1, 4) {
                            calls.push(SeqCall::PollComplete { h });
                        }
                    } else {
                        calls.push(SeqCall::TrySend { h });
                    }
                }
            }
            1 | 2 | 3 | 4 => {
                if recvs.is_empty() {
                    continue;
                }
                let h = *r.pick(&recvs);
                let mh = m.handles[&h].clone();
                let uni_plain = mh.kind == Kind::Uni && !q.fut;
                let blocking_ok = !m.would_block(mh.stream);
                let c = match pick {
                    1 => {
                        if blocking_ok && r.chance(1, 3) {
                            SeqCall::Recv { h }
                        } else {
                            SeqCall::TryRecv { h }
                        }
                    }
                    2 => {
                        if !uni_plain {
                            SeqCall::TryRecv { h }
                        } else if blocking_ok && r.chance(1, 3) {
                            SeqCall::RecvView { h }
                        } else {
                            SeqCall::TryRecvView { h }
                        }
                    }
                    3 => {
                        if q.fut {
                            SeqCall::TryRecv { h }
                        } else if r.chance(1, 6) {
                            SeqCall::IterTake { h, with: uni_plain && r.chance(1, 2), k: r.range(0, 3) as u32 }
                        } else {
                            SeqCall::TryIterNext { h, with: uni_plain && r.chance(1, 2) }
                        }
                    }
                    _ => {
                        if q.fut {
                            SeqCall::Poll { h }
                        } else {
                            SeqCall::TryRecv { h }
                        }
                    }
                };
                // mirror on the generator's model
                match &c {
                    SeqCall::IterTake { k, .. } => {
                        for _ in 0..*k {
                            if m.would_block(mh.stream) {
                                break;
                            }
                            m.recv(mh.stream);
                        }
                        m.drop_recv(h);
                    }
                    _ => {
                        m.recv(mh.stream);
                    }
                }
                calls.push(c);
            }
            5 => {
                // add_stream: BR, BFR, BFU; MFU only in the hazardous sub-family
                let cands: Vec<u32> = recvs
                    .iter()
                    .copied()
                    .filter(|h| {
                        let k = m.handles[h].kind;
                        if bcast {
                            !q.fut && k == Kind::Multi || q.fut
                        } else {
                            q.fut && k == Kind::Uni && o.mpmc_second_stream
                        }
                    })
                    .collect();
                if cands.is_empty() || m.streams.len() >= 4 {
                    continue;
                }
                let h = *r.pick(&cands);
                let mh = m.handles[&h].clone();
                let new = next_h;
                next_h += 1;
                let pos = m.streams[&mh.stream].0;
                m.streams.insert(new, (pos, 1));
                m.handles.insert(new, MHandle { kind: if mh.kind == Kind::Uni { Kind::Uni } else { Kind::Multi }, stream: new });
                calls.push(SeqCall::AddStream { h, new });
            }
            6 => {
                let cands: Vec<u32> = recvs.iter().copied().filter(|h| m.handles[h].kind == Kind::Multi && m.stream_handles(m.handles[h].stream) < 3).collect();
                if cands.is_empty() {
                    continue;
                }
                let h = *r.pick(&cands);
                let mh = m.handles[&h].clone();
                let new = next_h;
                next_h += 1;
                m.streams.get_mut(&mh.stream).unwrap().1 += 1;
                m.handles.insert(new, mh);
                calls.push(SeqCall::CloneRecv { h, new });
            }
            7 => {
                if recvs.is_empty() {
                    continue;
                }
                let h = *r.pick(&recvs);
                m.drop_recv(h);
                calls.push(if r.chance(1, 2) { SeqCall::Unsub { h } } else { SeqCall::DropRecv { h } });
            }
            8 => {
                if recvs.is_empty() {
                    continue;
                }
                let h = *r.pick(&recvs);
                let k = m.handles[&h].kind;
                if k == Kind::Multi {
                    if m.stream_handles(m.handles[&h].stream) == 1 {
                        m.handles.get_mut(&h).unwrap().kind = Kind::Uni;
                    }
                    calls.push(SeqCall::IntoSingle { h });
                } else if q.fut && r.chance(1, 2) {
                    calls.push(SeqCall::Transform { h });
                } else {
                    m.handles.get_mut(&h).unwrap().kind = Kind::Multi;
                    calls.push(SeqCall::IntoMulti { h });
                }
            }
            9 => {
                if senders.is_empty() || senders.len() >= 4 {
                    continue;
                }
                let h = *r.pick(&senders);
                let new = next_h;
                next_h += 1;
                m.handles.insert(new, MHandle { kind: Kind::Sender, stream: NO_STREAM });
                m.senders += 1;
                calls.push(SeqCall::CloneSender { h, new });
            }
            _ => {
                if senders.is_empty() {
                    continue;
                }
                let h = *r.pick(&senders);
                m.handles.remove(&h);
                m.senders -= 1;
                calls.push(if r.chance(1, 3) { SeqCall::UnsubSender { h } } else { SeqCall::DropSender { h } });
            }
        }
    }
    if o.norecv {
        // every receiver goes away (drop / unsubscribe, in random order), then each sender
        // tries to send through every entry point it has
        let mut recvs: Vec<u32> = m.handles.iter().filter(|(_, h)| h.kind != Kind::Sender).map(|(i, _)| *i).collect();
        for i in (1..recvs.len()).rev() {
            let j = r.below(i as u64 + 1) as usize;
            recvs.swap(i, j);
        }
        for h in recvs {
            m.drop_recv(h);
            calls.push(if r.chance(1, 2) { SeqCall::Unsub { h } } else { SeqCall::DropRecv { h } });
        }
        let senders: Vec<u32> = m.handles.iter().filter(|(_, h)| h.kind == Kind::Sender).map(|(i, _)| *i).collect();
        for _ in 0..r.range(1, 4) {
            for &h in &senders {
                calls.push(SeqCall::TrySend { h });
                if q.fut {
                    calls.push(SeqCall::StartSend { h });
                }
            }
        }
    }
    let _ = o.churn;
    let _ = o.fut_bias;
    calls
}
