//! Oracles: pure functions of the recorded history (plus ledger / memory reports).
//! Each one deliberately allows what its property allows (transient Full/Empty, in-flight
//! operations, races with departing streams) and nothing else.

use crate::analysis::Analysis;
use crate::exec::RunOutcome;
use crate::hist::{fmt_rec, OpK, Rec, Res, NONE};
use crate::payload::{fmt_id, id_producer, id_seq};
use crate::scenario::Scenario;
use crate::sched::End;
use std::collections::{BTreeMap, BTreeSet};

#[derive(Clone, Debug)]
pub struct Violation {
    pub prop: &'static str,
    pub class: String,
    pub site: String,
    pub tags: Vec<String>,
    pub msg: String,
}

fn v(prop: &'static str, class: &str, site: &str, msg: String) -> Violation {
    Violation {
        prop,
        class: class.to_string(),
        site: site.to_string(),
        tags: Vec::new(),
        msg,
    }
}

fn site_of(r: &Rec) -> String {
    r.op.name().to_string()
}

/// accepted values grouped by producer, each list sorted by sequence number
fn accepted_by_producer(a: &Analysis) -> BTreeMap<u32, Vec<u32>> {
    let mut m: BTreeMap<u32, Vec<u32>> = BTreeMap::new();
    for &val in a.accepted.keys() {
        m.entry(id_producer(val)).or_default().push(id_seq(val));
    }
    for l in m.values_mut() {
        l.sort_unstable();
    }
    m
}

/// Is the stream still subscribed and receiving when the run ends, and did it see the end?
fn stream_complete(a: &Analysis, scn: &Scenario, id: u32) -> bool {
    let s = &a.streams[&id];
    if !a.complete || !scn.final_drain {
        return false;
    }
    let survived = match s.gone_inv {
        None => true,
        Some(t) => t >= a.join_t,
    };
    survived && !s.ends.is_empty()
}

// =========================================================================== C01

pub fn c01(a: &Analysis, scn: &Scenario) -> Vec<Violation> {
    let mut out = Vec::new();
    let by_prod = accepted_by_producer(a);
    let open_vals: BTreeSet<u64> = a.recs.iter().filter(|r| r.op.is_send() && r.t_ret == 0).map(|r| r.val).collect();
    for (sid, s) in &a.streams {
        let mut seen: BTreeMap<u64, usize> = BTreeMap::new();
        for &di in &s.deliveries {
            let r = &a.recs[di];
            let val = match r.res {
                Res::Val(x) => x,
                _ => continue,
            };
            if !a.attempted.contains(&val) {
                out.push(v("C01", "phantom", &site_of(r), format!("stream s{} delivered {} which was never sent: {}", sid, fmt_id(val), fmt_rec(r))));
                continue;
            }
            if !a.accepted.contains_key(&val) && !open_vals.contains(&val) {
                out.push(v(
                    "C01",
                    "refused_delivered",
                    &site_of(r),
                    format!("stream s{} delivered {} although every send of it was refused and handed back: {}", sid, fmt_id(val), fmt_rec(r)),
                ));
                continue;
            }
            if let Some(&prev) = seen.get(&val) {
                out.push(v(
                    "C01",
                    "duplicate",
                    &site_of(r),
                    format!("stream s{} delivered {} twice: {} and {}", sid, fmt_id(val), fmt_rec(&a.recs[prev]), fmt_rec(r)),
                ));
                continue;
            }
            seen.insert(val, di);
        }
        if !a.complete {
            continue;
        }
        let (_lo, hi) = a.start_bounds(*sid);
        let delivered: BTreeSet<u64> = seen.keys().copied().collect();
        if stream_complete(a, scn, *sid) {
            // everything accepted must be here, except a precedence-closed prefix of at
            // most `hi` values for a stream that was added later
            let missing: Vec<u64> = a.accepted.keys().copied().filter(|x| !delivered.contains(x)).collect();
            if missing.len() as u64 > hi {
                let shown: Vec<String> = missing.iter().take(6).map(|x| fmt_id(*x)).collect();
                out.push(v(
                    "C01",
                    "lost",
                    "recv",
                    format!(
                        "stream s{} drained to the end but never delivered {} accepted value(s) [{}]; at most {} may precede its start",
                        sid,
                        missing.len(),
                        shown.join(", "),
                        hi
                    ),
                ));
            } else {
                for (p, acc) in &by_prod {
                    // the missing ones of each producer must be a prefix of what it got accepted
                    let mut seen_delivered = false;
                    for &seq in acc {
                        let val = crate::payload::make_id(*p, seq);
                        let d = delivered.contains(&val);
                        if d {
                            seen_delivered = true;
                        } else if seen_delivered {
                            out.push(v(
                                "C01",
                                "lost",
                                "recv",
                                format!("stream s{} skipped {} although it delivered an earlier value of the same producer (gap)", sid, fmt_id(val)),
                            ));
                            break;
                        }
                    }
                }
            }
        } else {
            // the stream left early (or the run has no final drain): what it delivered
            // must be gap-free per producer
            for (p, acc) in &by_prod {
                let mut state = 0; // 0 = before, 1 = inside, 2 = after
                for &seq in acc {
                    let val = crate::payload::make_id(*p, seq);
                    let d = delivered.contains(&val);
                    match (state, d) {
                        (0, true) => {
                            state = 1;
                            if hi == 0 && seq != acc[0] {
                                out.push(v(
                                    "C01",
                                    "lost",
                                    "recv",
                                    format!("stream s{} existed from the start but its first value of producer {} is {} (earlier ones lost)", sid, p, fmt_id(val)),
                                ));
                            }
                        }
                        (1, false) => state = 2,
                        (2, true) => {
                            out.push(v("C01", "lost", "recv", format!("stream s{} delivered {} after skipping an earlier value of the same producer (gap)", sid, fmt_id(val))));
                            break;
                        }
                        _ => {}
                    }
                }
            }
        }
    }
    // a refused send must hand back the very message it was given
    for r in a.recs {
        if r.op.is_send() && matches!(r.res, Res::Full | Res::Disc | Res::NotReady) && r.back_serial != NONE && r.back_serial != r.serial {
            out.push(v("C01", "refused_delivered", &site_of(r), format!("refused send handed back a different message (serial {} instead of {}): {}", r.back_serial, r.serial, fmt_rec(r))));
        }
    }
    out
}

// =========================================================================== C02

pub fn c02(a: &Analysis, _scn: &Scenario) -> Vec<Violation> {
    let mut out = Vec::new();
    let vals: Vec<u64> = a.accepted.keys().copied().collect();
    let idx: BTreeMap<u64, usize> = vals.iter().enumerate().map(|(i, x)| (*x, i)).collect();
    let n = vals.len();
    // edge kinds: 0 producer order, 1 real-time send order, 2 receive order on a stream
    let mut adj: Vec<Vec<(usize, u8, u32)>> = vec![Vec::new(); n];
    // producer order
    let by_prod = accepted_by_producer(a);
    for (p, acc) in &by_prod {
        for w in acc.windows(2) {
            let x = idx[&crate::payload::make_id(*p, w[0])];
            let y = idx[&crate::payload::make_id(*p, w[1])];
            adj[x].push((y, 0, 0));
        }
    }
    // real-time order of non-overlapping sends
    let sends: Vec<(u64, u64, usize)> = a.accepted.iter().map(|(val, &ri)| (a.recs[ri].t_inv, a.recs[ri].t_ret, idx[val])).collect();
    for &(_, ret_x, x) in &sends {
        for &(inv_y, _, y) in &sends {
            if x != y && ret_x != 0 && ret_x < inv_y {
                adj[x].push((y, 1, 0));
            }
        }
    }
    // receive order on each stream: x returned before y was invoked (covers each handle's
    // own sequence, because a handle's calls never overlap)
    for (sid, s) in &a.streams {
        let ds: Vec<(u64, u64, usize)> = s
            .deliveries
            .iter()
            .filter_map(|&di| {
                let r = &a.recs[di];
                match r.res {
                    Res::Val(x) => idx.get(&x).map(|&i| (r.t_inv, r.t_ret, i)),
                    _ => None,
                }
            })
            .collect();
        for &(_, ret_x, x) in &ds {
            for &(inv_y, _, y) in &ds {
                if x != y && ret_x != 0 && ret_x < inv_y {
                    adj[x].push((y, 2, *sid));
                }
            }
        }
    }
    // cycle detection (iterative DFS with colours), report one cycle
    let mut colour = vec![0u8; n];
    let mut parent: Vec<(usize, u8, u32)> = vec![(usize::MAX, 0, 0); n];
    'outer: for start in 0..n {
        if colour[start] != 0 {
            continue;
        }
        let mut stack: Vec<(usize, usize)> = vec![(start, 0)];
        colour[start] = 1;
        while let Some(&mut (u, ref mut ei)) = stack.last_mut() {
            if *ei < adj[u].len() {
                let (w, kind, sid) = adj[u][*ei];
                *ei += 1;
                if colour[w] == 0 {
                    colour[w] = 1;
                    parent[w] = (u, kind, sid);
                    stack.push((w, 0));
                } else if colour[w] == 1 {
                    // cycle w -> ... -> u -> w
                    let mut kinds: Vec<(u8, u32)> = vec![(kind, sid)];
                    let mut path = vec![vals[u]];
                    let mut x = u;
                    while x != w {
                        let (p, k, s) = parent[x];
                        kinds.push((k, s));
                        x = p;
                        path.push(vals[x]);
                    }
                    path.reverse();
                    let has_prod = kinds.iter().any(|k| k.0 == 0);
                    let has_rt = kinds.iter().any(|k| k.0 == 1);
                    let streams: BTreeSet<u32> = kinds.iter().filter(|k| k.0 == 2).map(|k| k.1).collect();
                    let class = if has_prod {
                        "producer_order"
                    } else if has_rt {
                        "realtime_order"
                    } else if streams.len() > 1 {
                        "streams_disagree"
                    } else {
                        "consumer_order"
                    };
                    let shown: Vec<String> = path.iter().take(8).map(|x| fmt_id(*x)).collect();
                    out.push(v(
                        "C02",
                        class,
                        "recv",
                        format!(
                            "no total order explains the history: cycle {} (edges: {}{}{})",
                            shown.join(" -> "),
                            if has_prod { "producer-order " } else { "" },
                            if has_rt { "real-time-send-order " } else { "" },
                            if streams.is_empty() { String::new() } else { format!("receive-order on streams {:?}", streams) }
                        ),
                    ));
                    break 'outer;
                }
            } else {
                colour[u] = 2;
                stack.pop();
            }
        }
    }
    out
}

// =========================================================================== C03

pub fn c03(a: &Analysis, scn: &Scenario) -> Vec<Violation> {
    let mut out = Vec::new();
    let n = scn.queue.capacity() as i64;
    for (sid, s) in &a.streams {
        let (_lo, hi) = a.start_bounds(*sid);
        let t_from = if s.parent.is_some() { s.add_ret } else { 0 };
        let t_to = s.gone_inv.unwrap_or(u64::MAX);
        let mut rcv_inv: Vec<u64> = s.deliveries.iter().map(|&i| a.recs[i].t_inv).collect();
        rcv_inv.sort_unstable();
        for (k, &ri) in a.accepted_by_ret.iter().enumerate() {
            let t = a.recs[ri].t_ret;
            if t == 0 || t <= t_from || t >= t_to {
                continue;
            }
            let acc = k as i64 + 1;
            let rcv = rcv_inv.partition_point(|&x| x <= t) as i64;
            let outstanding = acc - hi as i64 - rcv;
            if outstanding > n {
                out.push(v(
                    "C03",
                    "window_exceeded",
                    &site_of(&a.recs[ri]),
                    format!(
                        "when {} returned Ok, {} sends had been accepted while stream s{} (start <= {}) had begun only {} receives: {} unconsumed > N = {}",
                        fmt_rec(&a.recs[ri]),
                        acc,
                        sid,
                        hi,
                        rcv,
                        outstanding,
                        n
                    ),
                ));
                break;
            }
        }
    }
    // a refused send hands the same payload back
    for r in a.recs {
        if r.op.is_send() && r.res == Res::Full && r.back_serial != NONE && r.back_serial != r.serial {
            out.push(v("C03", "overwrite", &site_of(r), format!("Full handed back a different payload: {}", fmt_rec(r))));
        }
    }
    // exact window at quiescence
    out.extend(probe_check(a, scn, "C03"));
    out
}

// =========================================================================== C06

/// The quiescent probe: drain / fill / drain / fill / drain after all threads joined.
/// `prop` selects how findings are labelled (C06 uses all classes; C03 only the
/// capacity ones).
pub fn probe_check(a: &Analysis, scn: &Scenario, prop: &'static str) -> Vec<Violation> {
    let mut out = Vec::new();
    if !a.complete || !scn.probe {
        return out;
    }
    let n = scn.queue.capacity() as usize;
    let probe: Vec<&Rec> = a.recs.iter().filter(|r| r.phase == 1).collect();
    if probe.is_empty() {
        return out;
    }
    // split into alternating segments of receives and sends
    let mut segs: Vec<(bool, Vec<&Rec>)> = Vec::new();
    for r in probe {
        let is_send = r.op.is_send();
        match segs.last_mut() {
            Some((k, l)) if *k == is_send => l.push(r),
            _ => segs.push((is_send, vec![r])),
        }
    }
    // accepted in the concurrent phase
    let a0 = a.accepted.values().filter(|&&ri| a.recs[ri].phase == 0).count() as i64;
    let mut last_burst: Option<Vec<u64>> = None;
    let mut first_drain = true;
    let streams_alive: BTreeSet<u32> = segs.iter().filter(|s| !s.0).flat_map(|s| s.1.iter().map(|r| r.stream)).collect();
    for (is_send, recs) in &segs {
        if !*is_send {
            let mut per: BTreeMap<u32, Vec<u64>> = BTreeMap::new();
            for r in recs {
                let e = per.entry(r.stream).or_default();
                if let Res::Val(x) = r.res {
                    e.push(x);
                }
            }
            for (sid, got) in &per {
                if first_drain {
                    let s = &a.streams[sid];
                    let before = s.deliveries.iter().filter(|&&i| a.recs[i].phase == 0).count() as i64;
                    let (lo, hi) = a.start_bounds(*sid);
                    let max_out = a0 - lo as i64 - before;
                    let min_out = a0 - hi as i64 - before;
                    let g = got.len() as i64;
                    if g < min_out {
                        out.push(v(
                            prop,
                            "stuck_empty",
                            "try_recv",
                            format!(
                                "after all threads joined, stream s{} drained only {} value(s) but {} accepted - start {}..{} - {} delivered earlier leaves at least {} outstanding",
                                sid, g, a0, lo, hi, before, min_out
                            ),
                        ));
                    } else if g > max_out {
                        out.push(v(
                            prop,
                            "wrong_values",
                            "try_recv",
                            format!("after all threads joined, stream s{} drained {} value(s) but at most {} were outstanding", sid, g, max_out),
                        ));
                    }
                } else if let Some(b) = &last_burst {
                    if got != b {
                        let class = if got.len() < b.len() { "stuck_empty" } else { "wrong_values" };
                        out.push(v(
                            prop,
                            class,
                            "try_recv",
                            format!(
                                "quiescent queue: {} value(s) were accepted [{}] but stream s{} then drained [{}]",
                                b.len(),
                                b.iter().take(8).map(|x| fmt_id(*x)).collect::<Vec<_>>().join(","),
                                sid,
                                got.iter().take(8).map(|x| fmt_id(*x)).collect::<Vec<_>>().join(",")
                            ),
                        ));
                    }
                }
            }
            first_drain = false;
        } else {
            let okc = recs.iter().filter(|r| r.res == Res::Ok).count();
            let ended_full = recs.last().map(|r| r.res == Res::Full).unwrap_or(false);
            let ended_disc = recs.last().map(|r| r.res == Res::Disc).unwrap_or(false);
            last_burst = Some(recs.iter().filter(|r| r.res == Res::Ok).map(|r| r.val).collect());
            if streams_alive.is_empty() || ended_disc {
                continue;
            }
            if okc < n {
                out.push(v(
                    prop,
                    "stuck_full",
                    "try_send",
                    format!("quiescent queue with every stream drained accepted only {} of N = {} sends before refusing: {}", okc, n, fmt_rec(recs.last().unwrap())),
                ));
            } else if okc > n || !ended_full {
                out.push(v(
                    prop,
                    if prop == "C03" { "wrong_capacity" } else { "extra_capacity" },
                    "try_send",
                    format!("quiescent queue accepted {} sends in a row without a receive; N = {}", okc, n),
                ));
            }
        }
    }
    out
}

pub fn c06(a: &Analysis, scn: &Scenario) -> Vec<Violation> {
    let mut out = probe_check(a, scn, "C06");
    out.extend(isolated_calls(a, scn, "C06"));
    out
}

// =========================================================================== C07

pub fn c07(a: &Analysis, _scn: &Scenario) -> Vec<Violation> {
    let mut out = Vec::new();
    for (sid, s) in &a.streams {
        let first_end = match s.ends.iter().map(|&i| &a.recs[i]).min_by_key(|r| r.t_ret) {
            Some(r) => r,
            None => continue,
        };
        let t_e = first_end.t_ret;
        // 1. no sender handle may be alive (a sender in the middle of its drop does not count)
        if !a.all_senders_dropping_by(t_e) {
            let alive: Vec<u32> = a.handles.values().filter(|h| h.sender && h.drop_inv.map(|d| d >= t_e).unwrap_or(true)).map(|h| h.id).collect();
            out.push(v(
                "C07",
                "early_end_sender_alive",
                &site_of(first_end),
                format!("stream s{} reported the end while sender handle(s) {:?} had not begun to drop: {}", sid, alive, fmt_rec(first_end)),
            ));
            continue;
        }
        // 2. everything accepted that belongs to the stream was taken by a receive invoked before
        let (_lo, hi) = a.start_bounds(*sid);
        let taken_before: BTreeSet<u64> = s
            .deliveries
            .iter()
            .filter_map(|&i| {
                let r = &a.recs[i];
                match r.res {
                    Res::Val(x) if r.t_inv < t_e => Some(x),
                    _ => None,
                }
            })
            .collect();
        let missing: Vec<u64> = a.accepted.keys().copied().filter(|x| !taken_before.contains(x)).collect();
        if missing.len() as u64 > hi {
            out.push(v(
                "C07",
                "early_end_values_pending",
                &site_of(first_end),
                format!(
                    "stream s{} reported the end although {} accepted value(s) [{}] had not been taken by any receive begun before (at most {} may precede its start): {}",
                    sid,
                    missing.len(),
                    missing.iter().take(6).map(|x| fmt_id(*x)).collect::<Vec<_>>().join(", "),
                    hi,
                    fmt_rec(first_end)
                ),
            ));
            continue;
        }
        // 3. the end is stable
        for r in a.recs.iter().filter(|r| r.op.is_recv() && r.stream == *sid && r.t_inv > t_e && r.t_ret != 0) {
            let bad = match r.res {
                Res::Val(_) => true,
                Res::Empty | Res::NotReady => !matches!(r.op, OpK::TryIterNext | OpK::TryIterWithNext),
                _ => false,
            };
            if bad {
                out.push(v(
                    "C07",
                    "end_not_stable",
                    &site_of(r),
                    format!("stream s{} reported the end at t={} but a later call did not: {}", sid, t_e, fmt_rec(r)),
                ));
                break;
            }
        }
    }
    out
}

// ===================================================== liveness (C08, C14, C11, C13, C15)

/// Describe a run that ended in deadlock or livelock: which calls are still open.
pub struct Stuck {
    pub open: Vec<Rec>,
    pub parked: Vec<Rec>,
    pub text: String,
}

pub fn stuck_info(a: &Analysis, o: &RunOutcome) -> Stuck {
    let open: Vec<Rec> = a.open_recs().iter().map(|&i| a.recs[i]).collect();
    // a task is parked when its last completed poll / start_send returned NotReady
    let mut last_by_task: BTreeMap<u8, Rec> = BTreeMap::new();
    for r in a.recs {
        if r.t_ret != 0 {
            last_by_task.insert(r.task, *r);
        }
    }
    let busy: BTreeSet<u8> = open.iter().map(|r| r.task).collect();
    let parked: Vec<Rec> = last_by_task
        .values()
        .filter(|r| r.res == Res::NotReady && matches!(r.op, OpK::Poll | OpK::StartSend) && !busy.contains(&r.task))
        .copied()
        .collect();
    let mut text = format!("run ended in {} after {} steps;", o.end.name(), o.stats.steps);
    for r in &open {
        text.push_str(&format!(" open: {};", fmt_rec(r)));
    }
    for r in &parked {
        text.push_str(&format!(" parked after: {};", fmt_rec(r)));
    }
    let acc = a.accepted.len();
    for (sid, s) in &a.streams {
        if s.gone_ret.is_none() {
            text.push_str(&format!(" stream s{}: {} of {} accepted delivered;", sid, s.deliveries.len(), acc));
        }
    }
    text.push_str(&format!(" live senders: {}", a.live_senders_at(u64::MAX - 1)));
    Stuck { open, parked, text }
}

/// C08: a consumer is still inside a blocking receive although the run cannot progress.
pub fn c08(a: &Analysis, o: &RunOutcome) -> Vec<Violation> {
    let mut out = Vec::new();
    if !matches!(o.end, End::Deadlock | End::Livelock) {
        return out;
    }
    let st = stuck_info(a, o);
    if let Some(r) = st.open.iter().find(|r| r.op.is_blocking_recv()) {
        out.push(v("C08", "stuck_recv", &site_of(r), st.text.clone()));
    }
    out
}

/// C07 (liveness clause): once the last sender is gone a consumer that is waiting - blocked
/// in a receive or parked after NotReady - must be handed the remaining values and then the
/// end. A run that cannot finish with no live sender and a consumer still waiting never
/// reports the end to it.
pub fn c07_stuck(a: &Analysis, o: &RunOutcome) -> Vec<Violation> {
    let mut out = Vec::new();
    if !matches!(o.end, End::Deadlock | End::Livelock) {
        return out;
    }
    if a.live_senders_at(u64::MAX - 1) != 0 {
        return out;
    }
    let st = stuck_info(a, o);
    if let Some(r) = st.open.iter().find(|r| r.op.is_blocking_recv()) {
        out.push(v("C07", "end_never_reported", &site_of(r), st.text.clone()));
    } else if let Some(r) = st.parked.iter().find(|r| r.op == OpK::Poll) {
        out.push(v("C07", "end_never_reported", &site_of(r), st.text.clone()));
    }
    out
}

/// C14: a task is parked forever although the queue could make progress for it.
pub fn c14(a: &Analysis, o: &RunOutcome) -> Vec<Violation> {
    let mut out = Vec::new();
    if !matches!(o.end, End::Deadlock | End::Livelock) {
        return out;
    }
    let st = stuck_info(a, o);
    for r in &st.parked {
        let class = if r.op == OpK::Poll { "consumer_task_lost_wakeup" } else { "producer_task_lost_wakeup" };
        out.push(v("C14", class, &site_of(r), st.text.clone()));
        break;
    }
    if out.is_empty() {
        if let Some(r) = st.open.iter().find(|r| matches!(r.op, OpK::Poll | OpK::StartSend)) {
            out.push(v("C14", "task_never_returns", &site_of(r), st.text.clone()));
        }
    }
    out
}

// =========================================================================== C04 / C05 / C16

pub fn c04(o: &RunOutcome) -> Vec<Violation> {
    o.ledger
        .iter()
        .filter(|l| matches!(l.class, "torn" | "observed_dead" | "changed_during_observation"))
        .map(|l| v("C04", l.class, "observe", format!("{} (task {}, step {})", l.msg, l.task, l.step)))
        .collect()
}

pub fn c05(o: &RunOutcome) -> Vec<Violation> {
    let mut out: Vec<Violation> = o
        .ledger
        .iter()
        .filter(|l| matches!(l.class, "double_drop" | "observed_dead"))
        .map(|l| {
            let class = if l.class == "observed_dead" { "use_after_drop" } else { l.class };
            v("C05", class, "drop", format!("{} (task {}, step {})", l.msg, l.task, l.step))
        })
        .collect();
    if o.end == End::Completed && o.fin.teardown_done {
        for l in &o.leaks {
            out.push(v("C05", "leak", "drop", l.msg.clone()));
        }
    }
    out
}

pub fn c16(o: &RunOutcome) -> Vec<Violation> {
    match &o.mem {
        Some(m) => vec![v("C16", m.class, "memory", format!("{} (task {}, step {})", m.what, m.task, m.step))],
        None => Vec::new(),
    }
}

/// A panic raised inside the queue is a violation of whatever property is being checked:
/// the call neither returned what the model predicts nor anything at all.
pub fn panic_violation(prop: &'static str, a: &Analysis, o: &RunOutcome) -> Vec<Violation> {
    if o.end != End::Panic {
        return Vec::new();
    }
    let msg = o.panic_msg.clone().unwrap_or_default();
    if msg.starts_with("harness:") || msg.starts_with("verif shim:") {
        return Vec::new();
    }
    let open = a.open_recs();
    let site = open
        .iter()
        .find(|&&i| a.recs[i].task as usize == o.panic_task)
        .or(open.last())
        .map(|&i| site_of(&a.recs[i]))
        .unwrap_or_else(|| "?".into());
    vec![v(
        prop,
        "panic",
        &site,
        format!("the queue panicked: {}; open calls: {}", msg, open.iter().map(|&i| fmt_rec(&a.recs[i])).collect::<Vec<_>>().join("; ")),
    )]
}

// =========================================================================== C09

/// Sequential engine: every return value equals the model's, nothing panics, every call returns.
pub fn c09(a: &Analysis, o: &RunOutcome) -> Vec<Violation> {
    let mut out = Vec::new();
    for (class, site, msg) in &o.fin.seq_violations {
        out.push(v("C09", class, site, msg.clone()));
    }
    if matches!(o.end, End::Livelock | End::Deadlock) {
        let open = a.open_recs();
        let site = open.last().map(|&i| site_of(&a.recs[i])).unwrap_or_else(|| "?".into());
        out.push(v(
            "C09",
            "call_never_returns",
            &site,
            format!(
                "single-threaded call did not return ({} after {} steps): {}",
                o.end.name(),
                o.stats.steps,
                open.iter().map(|&i| fmt_rec(&a.recs[i])).collect::<Vec<_>>().join("; ")
            ),
        ));
    }
    out
}

// =========================================================================== C18

pub const C18_STEP_BOUND: u32 = 2000;
pub const C15_STEP_BOUND: u32 = 5000;

/// try operations complete within a bounded number of their own steps, also when every
/// other thread is frozen in the middle of an operation.
pub fn c18(a: &Analysis, o: &RunOutcome) -> Vec<Violation> {
    let mut out = Vec::new();
    for r in a.recs.iter().filter(|r| r.solo && matches!(r.op, OpK::TrySend | OpK::TryRecv | OpK::TryRecvView)) {
        if r.solo_blocked {
            out.push(v("C18", "try_op_waits", &site_of(r), format!("with every other thread frozen the call blocked on a lock held by a frozen thread: {}", fmt_rec(r))));
        } else if r.own_steps > C18_STEP_BOUND {
            out.push(v("C18", "try_op_waits", &site_of(r), format!("the call needed {} of its own steps (bound {}) while all other threads were frozen: {}", r.own_steps, C18_STEP_BOUND, fmt_rec(r))));
        }
    }
    if matches!(o.end, End::Livelock | End::Deadlock) {
        // only the call of the task that was running alone counts: the frozen tasks' calls
        // are open by construction
        if let Some(st) = o.solo_task {
            if let Some(&i) = a.open_recs().iter().find(|&&i| a.recs[i].task as usize == st && matches!(a.recs[i].op, OpK::TrySend | OpK::TryRecv | OpK::TryRecvView)) {
                let r = &a.recs[i];
                out.push(v(
                    "C18",
                    "try_op_waits",
                    &site_of(r),
                    format!("with every other thread frozen the call never returned ({} after {} steps): {}", o.end.name(), o.stats.steps, fmt_rec(r)),
                ));
            }
        }
    }
    out
}

// =========================================================================== C15

/// Sink/Stream contract. `seq` part: model mismatches of the sequential engine on futures
/// handles; concurrent part: the C01-C03 oracles through futures handles, bounded own
/// steps of poll / start_send in solo mode, direct methods that panic or never return.
pub fn c15(a: &Analysis, scn: &Scenario, o: &RunOutcome) -> Vec<Violation> {
    let mut out = Vec::new();
    for (class, site, msg) in &o.fin.seq_violations {
        out.push(v("C15", &format!("contract_{}", class), site, msg.clone()));
    }
    for r in a.recs.iter().filter(|r| r.solo && matches!(r.op, OpK::Poll | OpK::StartSend)) {
        let class = if r.op == OpK::Poll { "poll_waits" } else { "start_send_waits" };
        if r.solo_blocked {
            out.push(v("C15", class, &site_of(r), format!("with every other thread frozen (none holding a lock) the call blocked: {}", fmt_rec(r))));
        } else if r.own_steps > C15_STEP_BOUND {
            out.push(v("C15", class, &site_of(r), format!("the call needed {} of its own steps (bound {}): {}", r.own_steps, C15_STEP_BOUND, fmt_rec(r))));
        }
    }
    if scn.seq.is_some() {
        for r in a.recs.iter().filter(|r| matches!(r.op, OpK::Poll) && r.own_steps > C15_STEP_BOUND) {
            out.push(v("C15", "poll_waits", &site_of(r), format!("the call needed {} of its own steps (bound {}): {}", r.own_steps, C15_STEP_BOUND, fmt_rec(r))));
        }
    }
    if matches!(o.end, End::Livelock | End::Deadlock) {
        let open = a.open_recs();
        let pick = open
            .iter()
            .find(|&&i| Some(a.recs[i].task as usize) == o.solo_task && matches!(a.recs[i].op, OpK::Poll | OpK::StartSend))
            .or_else(|| open.iter().find(|&&i| o.solo_task.is_none() && matches!(a.recs[i].op, OpK::Poll | OpK::StartSend)));
        if let Some(&i) = pick {
            let r = &a.recs[i];
            let class = if r.op == OpK::Poll { "poll_waits" } else { "start_send_waits" };
            out.push(v("C15", class, &site_of(r), format!("the call never returned ({} after {} steps): {}", o.end.name(), o.stats.steps, fmt_rec(r))));
        } else if scn.seq.is_some() {
            let site = open.last().map(|&i| site_of(&a.recs[i])).unwrap_or_else(|| "?".into());
            out.push(v("C15", "call_never_returns", &site, format!("single-threaded call did not return ({})", o.end.name())));
        } else if let Some(&i) = open.iter().find(|&&i| a.recs[i].op.is_blocking_recv()) {
            // consumers run to the end of the stream and senders always drop: a direct
            // blocking receive that never returns is not what the plain handle does
            let st = stuck_info(a, o);
            out.push(v("C15", "direct_recv_never_returns", &site_of(&a.recs[i]), st.text));
        }
    }
    if scn.family.starts_with("futpark") && out.is_empty() {
        // quota families: every task can finish; one that stays parked never delivers /
        // accepts what the plain handle would under the same capacity rule
        for mut x in c14(a, o) {
            x.class = format!("{}_{}", x.prop, x.class);
            x.prop = "C15";
            out.push(x);
        }
    }
    if scn.seq.is_none() {
        // a Stream yields None only at the end of the stream and forever after
        for mut x in c07(a, scn) {
            x.class = format!("{}_{}", x.prop, x.class);
            x.prop = "C15";
            out.push(x);
        }
    }
    if a.complete && scn.seq.is_none() {
        // same values, same order, same window as the plain handles
        for mut x in c01(a, scn).into_iter().chain(c02(a, scn)).chain(c03(a, scn)) {
            x.class = format!("{}_{}", x.prop, x.class);
            x.prop = "C15";
            out.push(x);
        }
    }
    out
}

// =========================================================================== C13

/// With no receivers left no send succeeds: it is refused as Disconnected (identical
/// payload handed back), and a pending sink future resolves instead of staying parked.
pub fn c13(a: &Analysis, scn: &Scenario, o: &RunOutcome) -> Vec<Violation> {
    let mut out = Vec::new();
    // the instant after which no receiver exists: every stream is gone
    let all_gone = !a.streams.is_empty() && a.streams.values().all(|s| s.gone_ret.is_some());
    if all_gone {
        let t_gone = a.streams.values().map(|s| s.gone_ret.unwrap()).max().unwrap();
        for r in a.recs.iter().filter(|r| r.op.is_send() && r.t_inv > t_gone && r.t_ret != 0) {
            let (class, what) = match r.res {
                Res::Disc => continue,
                Res::Ok => ("accepted_without_receiver", "was accepted"),
                Res::Full => ("wrong_variant", "was refused as Full instead of Disconnected"),
                Res::NotReady => ("sink_parked_forever", "returned NotReady (the task parks although nobody is left to wake it)"),
                _ => ("wrong_variant", "returned an unexpected result"),
            };
            out.push(v("C13", class, &site_of(r), format!("the last receiver was gone at t={} but a later send {}: {}", t_gone, what, fmt_rec(r))));
            break;
        }
    }
    for r in a.recs.iter().filter(|r| r.op.is_send() && r.res == Res::Disc && r.back_serial != NONE && r.back_serial != r.serial) {
        out.push(v("C13", "wrong_variant", &site_of(r), format!("Disconnected handed back a different message: {}", fmt_rec(r))));
    }
    for (class, site, msg) in &o.fin.seq_violations {
        if site == "try_send" || site == "start_send" {
            out.push(v("C13", "wrong_variant", site, format!("{} ({})", msg, class)));
        }
    }
    if matches!(o.end, End::Deadlock | End::Livelock) && scn.family == "norecv" {
        // every send loop ends only by Disconnected: a sender that cannot finish hangs
        let st = stuck_info(a, o);
        if let Some(r) = st.parked.iter().find(|r| r.op == OpK::StartSend) {
            out.push(v("C13", "sink_parked_forever", &site_of(r), st.text.clone()));
        } else if let Some(r) = st.open.iter().find(|r| r.op.is_send()) {
            out.push(v("C13", "send_never_fails", &site_of(r), st.text.clone()));
        } else if all_gone {
            // plain senders spin in their retry loop: the last completed call says how
            let last_send = a.recs.iter().rev().find(|r| r.op.is_send() && r.t_ret != 0);
            if let Some(r) = last_send {
                out.push(v("C13", "wrong_variant", &site_of(r), format!("senders retry forever, last result {}: {}", r.res.name(), st.text)));
            }
        }
    }
    out
}

// =========================================================================== C12

fn relabel(vs: Vec<Violation>, prop: &'static str, class_prefix: bool) -> Vec<Violation> {
    vs.into_iter()
        .map(|mut x| {
            if class_prefix {
                x.class = format!("{}_{}", x.prop, x.class);
            }
            x.prop = prop;
            x
        })
        .collect()
}

/// Handle churn is invisible: exactly-once, order, capacity bound and the quiescent state
/// are checked unchanged while the handle population changes.
pub fn c12(a: &Analysis, scn: &Scenario) -> Vec<Violation> {
    let mut out = Vec::new();
    out.extend(relabel(c01(a, scn), "C12", true));
    out.extend(relabel(c02(a, scn), "C12", true));
    out.extend(relabel(c03(a, scn), "C12", true));
    out.extend(relabel(c06(a, scn), "C12", true));
    // tag with the last membership change before the end of the concurrent phase
    let last = a
        .recs
        .iter()
        .filter(|r| r.phase == 0 && matches!(r.op, OpK::CloneSender | OpK::DropSender | OpK::CloneRecv | OpK::DropRecv | OpK::Unsub | OpK::IntoSingle | OpK::IntoMulti))
        .last()
        .map(|r| r.op.name().to_string());
    if let Some(l) = last {
        for x in out.iter_mut() {
            x.tags.push(format!("last_membership_change={}", l));
        }
    }
    out
}

// =========================================================================== C10

/// add_stream: the new stream is a gap-free suffix whose start lies in the interval the
/// parent position swept during the call; nothing happens to the other streams.
pub fn c10(a: &Analysis, scn: &Scenario) -> Vec<Violation> {
    let mut out = Vec::new();
    // streams created during the concurrent phase by add_stream
    let added: Vec<u32> = a.streams.values().filter(|s| s.parent.is_some() && a.recs[s.add_rec].phase == 0 && s.add_inv >= a.first_send_inv.min(u64::MAX)).map(|s| s.id).collect();
    let all_added: Vec<u32> = a.streams.values().filter(|s| s.parent.is_some()).map(|s| s.id).collect();
    // hazard: a successful receive on the parent stream overlapped an add_stream call
    let mut hazard = false;
    for sid in &all_added {
        let s = &a.streams[sid];
        if let Some(p) = s.parent.and_then(|p| a.streams.get(&p)) {
            for &d in &p.deliveries {
                let r = &a.recs[d];
                let ret = if r.t_ret == 0 { u64::MAX } else { r.t_ret };
                if r.t_inv < s.add_ret && ret > s.add_inv {
                    hazard = true;
                }
            }
        }
    }
    let per_stream = c01(a, scn);
    for x in per_stream {
        // which stream does the C01 finding speak about?
        let is_new = all_added.iter().any(|sid| x.msg.contains(&format!("stream s{} ", sid)));
        let class = if is_new { "new_stream_gap" } else { "existing_stream_lost" };
        out.push(Violation { prop: "C10", class: class.to_string(), site: "add_stream".into(), tags: x.tags.clone(), msg: format!("{} [{}]", x.msg, x.class) });
    }
    for x in c02(a, scn) {
        out.push(Violation { prop: "C10", class: "existing_stream_lost".into(), site: "add_stream".into(), tags: x.tags.clone(), msg: format!("{} [order: {}]", x.msg, x.class) });
    }
    for x in c03(a, scn).into_iter().chain(c06(a, scn)) {
        out.push(Violation { prop: "C10", class: "backpressure_lost".into(), site: "add_stream".into(), tags: x.tags.clone(), msg: format!("{} [{}.{}]", x.msg, x.prop, x.class) });
    }
    // start position of every drained new stream
    if a.complete {
        for sid in &added {
            if !stream_complete(a, scn, *sid) {
                continue;
            }
            let (lo, hi) = a.start_bounds(*sid);
            let delivered = a.streams[sid].deliveries.len() as u64;
            let acc = a.accepted.len() as u64;
            if delivered > acc {
                continue;
            }
            let p = acc - delivered;
            if p < lo || p > hi {
                out.push(v(
                    "C10",
                    "new_stream_wrong_start",
                    "add_stream",
                    format!(
                        "stream s{} (added from s{}) skipped {} accepted value(s); its parent's position during the call was within {}..={}",
                        sid,
                        a.streams[sid].parent.unwrap(),
                        p,
                        lo,
                        hi
                    ),
                ));
            }
        }
    }
    if hazard {
        for x in out.iter_mut() {
            x.tags.push("hazard=parent_moved_during_call".into());
        }
    }
    out
}

// =========================================================================== C11

/// After its last handle is gone a stream no longer limits senders; the others keep their
/// values and their backpressure; unsubscribe reports "was last" truthfully.
pub fn c11(a: &Analysis, scn: &Scenario, o: &RunOutcome) -> Vec<Violation> {
    let mut out = Vec::new();
    let n = scn.queue.capacity() as i64;
    // 1. a send that overlaps no other call and is made after a removal completed must
    //    behave exactly like the model: refused iff the slowest remaining stream has N
    //    outstanding
    let removed: Vec<u64> = a.streams.values().filter_map(|s| s.gone_ret).collect();
    if let Some(&first_gone) = removed.iter().min() {
        for (i, r) in a.recs.iter().enumerate() {
            if !(r.op == OpK::TrySend && r.t_ret != 0 && r.t_inv > first_gone && r.phase == 0) {
                continue;
            }
            // isolated: no other call overlaps [t_inv, t_ret]
            let overlaps = a.recs.iter().enumerate().any(|(j, q)| {
                j != i && q.op != OpK::Create && q.t_inv < r.t_ret && (q.t_ret == 0 || q.t_ret > r.t_inv)
            });
            if overlaps {
                continue;
            }
            let acc = a.accepted_by_ret.iter().filter(|&&k| a.recs[k].t_ret < r.t_inv).count() as i64;
            let mut worst: i64 = i64::MIN;
            let mut any = false;
            let mut exact = true;
            for (sid, s) in &a.streams {
                let alive = s.add_ret < r.t_inv && s.gone_inv.map(|g| g > r.t_ret).unwrap_or(true);
                let gone = s.gone_ret.map(|g| g < r.t_inv).unwrap_or(false);
                if !alive {
                    if !gone {
                        exact = false; // being added / removed right now
                    }
                    continue;
                }
                any = true;
                let (lo, hi) = a.start_bounds(*sid);
                if lo != hi {
                    exact = false;
                }
                let rcv = s.deliveries.iter().filter(|&&d| a.recs[d].t_ret != 0 && a.recs[d].t_ret < r.t_inv).count() as i64;
                worst = worst.max(acc - lo as i64 - rcv);
            }
            if !any || !exact {
                continue;
            }
            if r.res == Res::Full && worst < n {
                out.push(v(
                    "C11",
                    "still_blocked_after_removal",
                    "try_send",
                    format!(
                        "a stream was removed by t={}; with no other call in flight the slowest remaining stream had {} < N = {} outstanding, yet the send was refused: {}",
                        first_gone,
                        worst,
                        n,
                        fmt_rec(r)
                    ),
                ));
                break;
            }
            if r.res == Res::Ok && worst >= n {
                out.push(v(
                    "C11",
                    "other_stream_affected",
                    "try_send",
                    format!("with no other call in flight a remaining stream had {} >= N = {} outstanding, yet the send was accepted: {}", worst, n, fmt_rec(r)),
                ));
                break;
            }
        }
    }
    // liveness: producers retry until accepted, so a run that cannot finish means a sender
    // is still held back although the stream that filled the queue is gone
    if matches!(o.end, End::Deadlock | End::Livelock) {
        let st = stuck_info(a, o);
        let sender_stuck = st.open.iter().any(|r| r.op.is_send()) || st.parked.iter().any(|r| r.op == OpK::StartSend) || a.recs.iter().rev().take(50).any(|r| r.op.is_send() && matches!(r.res, Res::Full | Res::NotReady));
        if sender_stuck && !removed.is_empty() {
            out.push(v("C11", "still_blocked_after_removal", "try_send", st.text));
        }
    }
    // 2. the remaining streams are unaffected
    out.extend(c01(a, scn).into_iter().chain(c02(a, scn)).chain(c03(a, scn)).chain(c06(a, scn)).map(|x| Violation {
        prop: "C11",
        class: "other_stream_affected".into(),
        site: x.site.clone(),
        tags: x.tags.clone(),
        msg: format!("{} [{}.{}]", x.msg, x.prop, x.class),
    }));
    // 3. unsubscribe's answer
    for r in a.recs.iter().filter(|r| r.op == OpK::Unsub && r.t_ret != 0) {
        let b = match r.res {
            Res::Bool(b) => b,
            _ => continue,
        };
        let others: Vec<&crate::analysis::HandleInfo> = a.handles.values().filter(|h| !h.sender && h.stream == r.stream && h.id != r.h).collect();
        // handles that certainly existed during the whole call / that may have existed at some instant of it
        let surely = others.iter().filter(|h| h.born_ret < r.t_inv && h.drop_inv.map(|d| d > r.t_ret).unwrap_or(true)).count();
        let maybe = others.iter().filter(|h| h.born_inv < r.t_ret && h.drop_ret.map(|d| d > r.t_inv).unwrap_or(true)).count();
        if b && surely >= 1 {
            out.push(v("C11", "unsubscribe_bool", "unsubscribe(receiver)", format!("unsubscribe returned true although {} other handle(s) of stream s{} were alive during the whole call: {}", surely, r.stream, fmt_rec(r))));
        }
        if !b && maybe == 0 {
            out.push(v("C11", "unsubscribe_bool", "unsubscribe(receiver)", format!("unsubscribe returned false although the handle was the only one on stream s{}: {}", r.stream, fmt_rec(r))));
        }
    }
    out
}

// =========================================================================== C17

pub const C17_SLACK: i64 = 16 * 1024;

/// Memory: everything is released at teardown; under churn with all handles operating the
/// live bytes reach a plateau.
pub fn c17(o: &RunOutcome) -> Vec<Violation> {
    let mut out = Vec::new();
    if o.end == End::Completed && o.fin.teardown_done {
        if o.fin.live_bytes_after != 0 || o.fin.live_blocks_after != 0 {
            out.push(v(
                "C17",
                "teardown_leak",
                "drop",
                format!(
                    "after the last handle was dropped {} byte(s) in {} block(s) allocated by the queue are still live ({} byte(s) in {} block(s) of them came from the queue's own allocate())",
                    o.fin.live_bytes_after, o.fin.live_blocks_after, o.fin.seam_bytes_after, o.fin.seam_blocks_after
                ) + &format!("; survivors of allocate(): {:?}", {
                    let mut m: BTreeMap<String, (usize, usize)> = BTreeMap::new();
                    for (t, b) in &o.fin.seam_survivors {
                        let e = m.entry(t.clone()).or_default();
                        e.0 += 1;
                        e.1 += b;
                    }
                    m
                }),
            ));
        }
    }
    // churn plateau: max over the last half must not exceed max over [1/8, 1/4] by more than the slack
    let s = &o.fin.samples;
    if s.len() >= 64 {
        let c = s.len();
        let early = s[c / 8..c / 4].iter().map(|x| x.1).max().unwrap_or(0);
        let late = s[c / 2..].iter().map(|x| x.1).max().unwrap_or(0);
        if late > early + C17_SLACK {
            out.push(v(
                "C17",
                "unbounded_growth",
                "churn",
                format!("live bytes grew from at most {} (cycles {}..{}) to {} (cycles {}..{}) while a fixed set of handles kept operating", early, c / 8, c / 4, late, c / 2, c),
            ));
        }
    }
    out
}

// ================================================================ isolated-call oracle

/// A call that overlaps no other call on the queue sees a quiescent queue, so its result
/// must be exactly what the reference model predicts (C06: a spurious Full/Empty can only
/// happen while another thread is in the middle of an operation). This also catches
/// states that never reach the quiescent probe because a retry loop cannot finish.
pub fn isolated_calls(a: &Analysis, scn: &Scenario, prop: &'static str) -> Vec<Violation> {
    let mut out = Vec::new();
    let n = scn.queue.capacity() as i64;
    let recs = a.recs;
    // recs are in invoke order; prefix maximum of return stamps (open = infinity)
    let mut prefix_max_ret = Vec::with_capacity(recs.len());
    let mut m = 0u64;
    for r in recs {
        prefix_max_ret.push(m);
        if r.op != OpK::Create {
            m = m.max(if r.t_ret == 0 { u64::MAX } else { r.t_ret });
        }
    }
    let acc_rets: Vec<u64> = a.accepted_by_ret.iter().map(|&i| recs[i].t_ret).collect();
    for (i, r) in recs.iter().enumerate() {
        if r.phase != 0 || r.t_ret == 0 || !matches!(r.op, OpK::TrySend | OpK::TryRecv | OpK::TryRecvView) {
            continue;
        }
        if prefix_max_ret[i] > r.t_inv {
            continue;
        }
        if let Some(nx) = recs.get(i + 1) {
            if nx.t_inv < r.t_ret {
                continue;
            }
        }
        // exact model state at this instant
        let acc = acc_rets.partition_point(|&t| t < r.t_inv) as i64;
        let mut exact = true;
        let mut min_pos: Option<i64> = None;
        let mut my_pos: Option<i64> = None;
        for (sid, s) in &a.streams {
            let born = s.add_ret != 0 && s.add_ret < r.t_inv;
            let gone = s.gone_ret.map(|g| g < r.t_inv).unwrap_or(false);
            let leaving = s.gone_inv.map(|g| g < r.t_ret).unwrap_or(false);
            if !born {
                if s.add_inv < r.t_ret && s.add_ret == 0 {
                    exact = false;
                }
                continue;
            }
            if gone {
                continue;
            }
            if leaving {
                exact = false;
                continue;
            }
            let (lo, hi) = a.start_bounds(*sid);
            if lo != hi {
                exact = false;
                continue;
            }
            let rcv = s.deliveries.iter().filter(|&&d| recs[d].t_ret != 0 && recs[d].t_ret < r.t_inv).count() as i64;
            let pos = lo as i64 + rcv;
            min_pos = Some(min_pos.map(|m: i64| m.min(pos)).unwrap_or(pos));
            if *sid == r.stream {
                my_pos = Some(pos);
            }
        }
        if !exact {
            continue;
        }
        if r.op == OpK::TrySend {
            let mp = match min_pos {
                Some(p) => p,
                None => continue,
            };
            let outstanding = acc - mp;
            if r.res == Res::Full && outstanding < n {
                out.push(v(
                    prop,
                    "stuck_full",
                    "try_send",
                    format!("no other call was in flight and the slowest stream had {} < N = {} outstanding, yet the send was refused: {}", outstanding, n, fmt_rec(r)),
                ));
                break;
            }
            if r.res == Res::Ok && outstanding >= n {
                out.push(v(
                    prop,
                    "extra_capacity",
                    "try_send",
                    format!("no other call was in flight and the slowest stream had {} >= N = {} outstanding, yet the send was accepted: {}", outstanding, n, fmt_rec(r)),
                ));
                break;
            }
        } else if let Some(pos) = my_pos {
            let outstanding = acc - pos;
            if r.res == Res::Empty && outstanding > 0 {
                out.push(v(
                    prop,
                    "stuck_empty",
                    &site_of(r),
                    format!("no other call was in flight and stream s{} had {} completely sent value(s) outstanding, yet the receive found nothing: {}", r.stream, outstanding, fmt_rec(r)),
                ));
                break;
            }
            if matches!(r.res, Res::Val(_)) && outstanding <= 0 {
                out.push(v(
                    prop,
                    "wrong_values",
                    &site_of(r),
                    format!("no other call was in flight and stream s{} had nothing outstanding, yet the receive delivered a value: {}", r.stream, fmt_rec(r)),
                ));
                break;
            }
        }
    }
    out
}
