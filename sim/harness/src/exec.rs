//! Executes one scenario inside one simulated execution and collects everything the
//! oracles need: history, ledger, memory report, statistics, schedule record.

use crate::handles::{Handle, OwnedIter, HK};
use crate::hist::{self, OpK, Rec, Res, NONE, NO_STREAM};
use crate::payload::{self, LedgerViolation, P};
use crate::prng::Rng;
use crate::scenario::{Op, RecvApi, Scenario, SendApi, Teardown, TryKind, UNLIMITED};
use crate::sched::{Core, End, SchedCfg, SimSched};
use futures::executor::{self, Notify, NotifyHandle};
use futures::{Async, AsyncSink, Future, Poll};
use multiqueue2_verif_rt as rt;
use rt::shim::{Latch, Parker};
use rt::state::{MemViolation, MAX_TASKS, N_FAULTS, N_PROBES};
use std::cell::{Cell, RefCell};
use std::collections::BTreeMap;
use std::rc::Rc;
use std::sync::mpsc::{TryRecvError, TrySendError};
use std::sync::Arc;

// ------------------------------------------------------------------ futures task slots

thread_local! {
    static FUT_SLOTS: [Cell<*mut u8>; MAX_TASKS] = Default::default();
}

fn fut_get() -> *mut u8 {
    let t = rt::with(|r| r.cur.get());
    FUT_SLOTS.with(|s| s[t].get())
}
fn fut_set(p: *mut u8) {
    let t = rt::with(|r| r.cur.get());
    FUT_SLOTS.with(|s| s[t].set(p))
}

/// futures 0.1 keeps "the current task" in a real thread-local. All simulated tasks share
/// one OS thread, so the slot must be per simulated task.
pub fn init_process() {
    unsafe {
        let ok = futures::task::init(fut_get, fut_set);
        assert!(ok, "futures task system was initialised before the harness");
    }
    rt::galloc::init_thread();
}

// ------------------------------------------------------------------------- outcome

#[derive(Clone, Debug, Default)]
pub struct RunStats {
    pub steps: u64,
    pub task_steps: Vec<u64>,
    pub probes: [u64; N_PROBES],
    pub faults: [u64; N_FAULTS],
    pub contention: u64,
    pub preempts_in_api: u64,
    pub preemptions: u64,
    pub context_switches: u64,
    pub ilv: u64,
    pub sim_time_ms: u64,
    pub tasks: usize,
    pub payloads: usize,
    pub clones: u64,
    pub views: u64,
}

#[derive(Clone, Debug, Default)]
pub struct FinalInfo {
    /// attributed live bytes / blocks right after the last handle was dropped
    pub live_bytes_after: i64,
    pub live_blocks_after: i64,
    pub seam_bytes_after: i64,
    pub seam_blocks_after: i64,
    pub peak_bytes: i64,
    pub teardown_done: bool,
    /// (cycle, live bytes) samples taken by churn programs
    pub samples: Vec<(u32, i64)>,
    /// sequential engine: (class, site, message) of model mismatches
    pub seq_violations: Vec<(String, String, String)>,
    pub seq_calls: u64,
    /// what the queue's own allocate() handed out and never got back (type, bytes)
    pub seam_survivors: Vec<(String, usize)>,
}

pub struct RunOutcome {
    pub end: End,
    pub recs: Vec<Rec>,
    pub notes: Vec<String>,
    pub ledger: Vec<LedgerViolation>,
    pub leaks: Vec<LedgerViolation>,
    pub mem: Option<MemViolation>,
    pub panic_msg: Option<String>,
    pub stats: RunStats,
    pub record: Vec<u8>,
    pub fin: FinalInfo,
    pub solo_blocked: bool,
    pub harness_errors: Vec<String>,
    pub diverged_at: Option<u64>,
    /// simulated task that panicked (usize::MAX if none)
    pub panic_task: usize,
    /// task that was running alone (all others frozen) when the run ended
    pub solo_task: Option<usize>,
}

// ------------------------------------------------------------------- shared run state

pub struct Shared {
    pub scn: Scenario,
    pub latches: Vec<Latch>,
    pub seed: u64,
}
unsafe impl Send for Shared {}
unsafe impl Sync for Shared {}

thread_local! {
    static CURRENT: RefCell<Option<Arc<Shared>>> = RefCell::new(None);
    static FINAL: RefCell<FinalInfo> = RefCell::new(FinalInfo::default());
    static ERRORS: RefCell<Vec<String>> = RefCell::new(Vec::new());
    static COMPLETED: Cell<bool> = Cell::new(false);
    static PANIC_MSG: RefCell<Option<String>> = RefCell::new(None);
    static PANIC_TASK: Cell<usize> = Cell::new(usize::MAX);
}

fn harness_error(s: String) {
    ERRORS.with(|e| {
        let mut e = e.borrow_mut();
        if e.len() < 8 {
            e.push(s)
        }
    })
}

#[inline]
fn cur() -> usize {
    rt::with(|r| r.cur.get())
}

/// Bracket one public API call: history invoke, "inside the queue" flag for the scheduler
/// and for memory attribution.
#[inline]
fn api<R>(op: OpK, h: u32, stream: u32, val: u64, serial: u32, f: impl FnOnce() -> R) -> (usize, R) {
    let task = cur();
    let idx = hist::invoke(task, op, h, stream, val, serial);
    if rt::with(|r| r.trace.get()) {
        eprintln!("  >> t{} {}(h{}) invoked", task, op.name(), h);
    }
    rt::with(|r| r.in_api[task].set(r.in_api[task].get() + 1));
    let saved = rt::galloc::set_attr(true);
    let r = f();
    rt::galloc::set_attr(saved);
    rt::with(|r| {
        let t = r.cur.get();
        r.in_api[t].set(r.in_api[t].get().saturating_sub(1))
    });
    (idx, r)
}

#[inline]
pub fn api_pub<R>(op: OpK, h: u32, stream: u32, val: u64, serial: u32, f: impl FnOnce() -> R) -> (usize, R) {
    api(op, h, stream, val, serial, f)
}
pub fn ret_pub(idx: usize, res: Res) {
    ret(idx, res)
}

/// A call returned with an effect on the queue: that is progress for the no-progress
/// detector (refused / empty results are not).
#[inline]
fn progress(idx: usize) {
    rt::with(|r| r.fp.set(r.fp.get() ^ rt::state::mix(0xC0FF_EE00_0000_0000 | idx as u64, 0x51)));
}

/// A bounded retry (a sender with max_retry, a consumer with max_empty) came one step
/// closer to giving up: progress of the workload itself, so that long spin configurations
/// (50 + 50 attempts inside every start_send) cannot add up to a no-progress window. The
/// number of such ticks in a run is finite by construction.
#[inline]
pub fn bounded_tick() {
    rt::with(|r| r.fp.set(r.fp.get() ^ rt::state::mix(0xB0DD_0000_0000_0000 | r.steps.get(), 0x77)));
}

fn ret(idx: usize, res: Res) {
    hist::ret(idx, res);
    match res {
        Res::Ok | Res::Val(_) | Res::Bool(_) | Res::End | Res::Disc => progress(idx),
        _ => {}
    }
}

// ----------------------------------------------------------------------- executor

struct NoNotify;
impl Notify for NoNotify {
    fn notify(&self, _id: usize) {}
}

struct SimNotify {
    parker: Parker,
}
impl Notify for SimNotify {
    fn notify(&self, _id: usize) {
        self.parker.unpark();
    }
}

/// Drive one future to completion on the calling simulated thread: poll, and when it is
/// not ready sleep until the task is notified. `spurious` (per 256) injects polls that no
/// notification asked for, which futures 0.1 allows.
fn run_task<F: Future<Item = (), Error = ()>>(f: F, spurious: u8, rng: &mut Rng) {
    let n = Arc::new(SimNotify { parker: Parker::new() });
    let nh: NotifyHandle = NotifyHandle::from(n.clone());
    let mut sp = executor::spawn(f);
    loop {
        match sp.poll_future_notify(&nh, 0) {
            Ok(Async::Ready(())) | Err(()) => return,
            Ok(Async::NotReady) => {
                if spurious > 0 && !n.parker.is_notified() && rng.below(256) < spurious as u64 {
                    rt::with(|r| r.fault(rt::Fault::SpuriousPoll));
                    rt::shim::user_point();
                    continue;
                }
                n.parker.park();
            }
        }
    }
}

// ----------------------------------------------------------------------- thread ctx

type Join = shuttle_std::thread::JoinHandle<Vec<Handle>>;

struct Ctx {
    sh: Arc<Shared>,
    handles: BTreeMap<u32, Handle>,
    rng: Rng,
    children: Vec<Join>,
    cycle: u32,
}

fn spawn_thread(sh: &Arc<Shared>, idx: usize, hs: Vec<Handle>) -> Join {
    let sh2 = sh.clone();
    shuttle_std::thread::spawn(move || thread_main(sh2, idx, hs))
}

fn thread_main(sh: Arc<Shared>, idx: usize, hs: Vec<Handle>) -> Vec<Handle> {
    let mut ctx = Ctx::new(sh.clone(), idx as u64 + 1);
    for h in hs {
        ctx.handles.insert(h.id, h);
    }
    let prog = sh.scn.threads[idx].prog.clone();
    for op in &prog {
        ctx.exec_op(op);
    }
    ctx.join_children();
    std::mem::take(&mut ctx.handles).into_values().collect()
}

impl Ctx {
    fn new(sh: Arc<Shared>, salt: u64) -> Ctx {
        let seed = sh.seed ^ salt.wrapping_mul(0xA076_1D64_78BD_642F);
        Ctx {
            sh,
            handles: BTreeMap::new(),
            rng: Rng::new(seed),
            children: Vec::new(),
            cycle: 0,
        }
    }

    fn join_children(&mut self) {
        for j in std::mem::take(&mut self.children) {
            match j.join() {
                Ok(hs) => {
                    for h in hs {
                        self.handles.insert(h.id, h);
                    }
                }
                Err(_) => harness_error("child thread panicked".into()),
            }
        }
    }

    fn take_handles(&mut self, ids: &[u32]) -> Vec<Handle> {
        let mut v = Vec::new();
        for id in ids {
            if let Some(h) = self.handles.remove(id) {
                v.push(h);
            }
        }
        v
    }

    fn exec_op(&mut self, op: &Op) {
        match op {
            Op::Produce { h, n, api, max_retry } => self.produce(*h, *n, *api, *max_retry),
            Op::Consume { h, api, quota, max_empty, after_end } => self.consume(*h, *api, *quota, *max_empty, *after_end),
            Op::AddStream { h, new } => {
                if let Some(hd) = self.handles.get(h) {
                    if !hd.k.can_add_stream() {
                        return harness_error(format!("add_stream on {}", hd.k.kind()));
                    }
                    let (idx, k) = api(OpK::AddStream, *h, hd.stream, 0, NONE, || hd.k.add_stream());
                    hist::update(idx, |r| {
                        r.new_h = *new;
                        r.new_stream = *new;
                    });
                    ret(idx, Res::Ok);
                    self.handles.insert(*new, Handle { id: *new, stream: *new, seq: 0, k });
                }
            }
            Op::CloneRecv { h, new } => {
                if let Some(hd) = self.handles.get(h) {
                    if !hd.k.can_clone_recv() {
                        return harness_error(format!("clone on {}", hd.k.kind()));
                    }
                    let stream = hd.stream;
                    let (idx, k) = api(OpK::CloneRecv, *h, stream, 0, NONE, || hd.k.clone_recv());
                    hist::update(idx, |r| r.new_h = *new);
                    ret(idx, Res::Ok);
                    self.handles.insert(*new, Handle { id: *new, stream, seq: 0, k });
                }
            }
            Op::DropRecv { h } => {
                if let Some(hd) = self.handles.remove(h) {
                    if hd.k.is_sender() {
                        harness_error("drop_recv on a sender".into());
                    }
                    let (idx, _) = api(OpK::DropRecv, *h, hd.stream, 0, NONE, move || drop(hd));
                    rt::with(|r| r.fault(rt::Fault::PartyLeaves));
                    ret(idx, Res::Ok);
                }
            }
            Op::Unsub { h } => {
                if let Some(hd) = self.handles.remove(h) {
                    let stream = hd.stream;
                    let (idx, b) = api(OpK::Unsub, *h, stream, 0, NONE, move || hd.k.unsubscribe());
                    rt::with(|r| r.fault(rt::Fault::PartyLeaves));
                    ret(idx, match b {
                        Some(b) => Res::Bool(b),
                        None => Res::Ok,
                    });
                }
            }
            Op::IntoSingle { h } => {
                if let Some(hd) = self.handles.remove(h) {
                    if !hd.k.can_clone_recv() {
                        harness_error(format!("into_single on {}", hd.k.kind()));
                        self.handles.insert(*h, hd);
                        return;
                    }
                    let Handle { id, stream, seq, k } = hd;
                    let (idx, r) = api(OpK::IntoSingle, *h, stream, 0, NONE, move || k.into_single());
                    let (k, ok) = match r {
                        Ok(k) => (k, true),
                        Err(k) => (k, false),
                    };
                    ret(idx, Res::Bool(ok));
                    self.handles.insert(id, Handle { id, stream, seq, k });
                }
            }
            Op::IntoMulti { h } => {
                if let Some(hd) = self.handles.remove(h) {
                    if !hd.k.is_uni() {
                        // the earlier into_single did not succeed: nothing to convert back
                        self.handles.insert(*h, hd);
                        return;
                    }
                    let Handle { id, stream, seq, k } = hd;
                    let (idx, k) = api(OpK::IntoMulti, *h, stream, 0, NONE, move || k.into_multi());
                    ret(idx, Res::Ok);
                    self.handles.insert(id, Handle { id, stream, seq, k });
                }
            }
            Op::Transform { h } => {
                if let Some(hd) = self.handles.remove(h) {
                    if !matches!(hd.k, HK::BFU(_) | HK::MFU(_)) {
                        // the earlier into_single did not succeed: nothing to transform
                        self.handles.insert(*h, hd);
                        return;
                    }
                    let Handle { id, stream, seq, k } = hd;
                    let (idx, k) = api(OpK::Transform, *h, stream, 0, NONE, move || k.transform());
                    ret(idx, Res::Ok);
                    self.handles.insert(id, Handle { id, stream, seq, k });
                }
            }
            Op::CloneSender { h, new } => {
                if let Some(hd) = self.handles.get(h) {
                    if !hd.k.is_sender() {
                        return harness_error(format!("clone_sender on {}", hd.k.kind()));
                    }
                    let (idx, k) = api(OpK::CloneSender, *h, NO_STREAM, 0, NONE, || hd.k.clone_sender());
                    hist::update(idx, |r| r.new_h = *new);
                    ret(idx, Res::Ok);
                    self.handles.insert(*new, Handle { id: *new, stream: NO_STREAM, seq: 0, k });
                }
            }
            Op::DropSender { h } => {
                if let Some(hd) = self.handles.remove(h) {
                    let (idx, _) = api(OpK::DropSender, *h, NO_STREAM, 0, NONE, move || drop(hd));
                    rt::with(|r| r.fault(rt::Fault::PartyLeaves));
                    ret(idx, Res::Ok);
                }
            }
            Op::UnsubSender { h } => {
                if let Some(hd) = self.handles.remove(h) {
                    let (idx, _) = api(OpK::UnsubSender, *h, NO_STREAM, 0, NONE, move || hd.k.unsubscribe());
                    rt::with(|r| r.fault(rt::Fault::PartyLeaves));
                    ret(idx, Res::Ok);
                }
            }
            Op::Spawn { thread, give } => {
                let hs = self.take_handles(give);
                let j = spawn_thread(&self.sh, *thread as usize, hs);
                self.children.push(j);
            }
            Op::Await(l) => {
                if let Some(l) = self.sh.latches.get(*l as usize) {
                    l.wait()
                }
            }
            Op::Signal(l) => {
                if let Some(l) = self.sh.latches.get(*l as usize) {
                    l.signal()
                }
            }
            Op::SoloTry { h, kind } => self.solo_try(*h, *kind),
            Op::Yield(k) => {
                for _ in 0..*k {
                    rt::shim::yield_now();
                }
            }
            Op::Repeat { times, body } => {
                for i in 0..*times {
                    self.cycle = i;
                    for o in body {
                        self.exec_op(o);
                    }
                }
            }
            Op::Sample => {
                let c = self.cycle;
                let b = rt::galloc::live_bytes();
                FINAL.with(|f| f.borrow_mut().samples.push((c, b)));
                if std::env::var_os("VERIF_DEBUG").is_some() {
                    let mut m: BTreeMap<&'static str, (usize, usize)> = BTreeMap::new();
                    rt::with(|r| {
                        for b in r.live.borrow().values() {
                            let e = m.entry(rt::state::short_ty(b.ty)).or_default();
                            e.0 += 1;
                            e.1 += b.len;
                        }
                        eprintln!("task {} cycle {} live {} seam {:?} epoch_started {} completed {}", r.cur.get(), c, b, m, r.probes[6].get(), r.probes[7].get());
                    });
                }
            }
        }
    }

    // ---------------------------------------------------------------- sending

    fn next_value(&mut self, h: u32) -> Option<P> {
        let hd = self.handles.get_mut(&h)?;
        let seq = hd.seq;
        hd.seq += 1;
        Some(P::new(payload::make_id(h, seq)))
    }

    fn produce(&mut self, h: u32, n: u32, sapi: SendApi, max_retry: u32) {
        match self.handles.get(&h) {
            None => return,
            Some(hd) if !hd.k.is_sender() => return harness_error(format!("produce on {}", hd.k.kind())),
            _ => {}
        }
        match sapi {
            SendApi::TrySend => {
                'values: for _ in 0..n {
                    let mut p = match self.next_value(h) {
                        Some(p) => p,
                        None => return,
                    };
                    let mut tries = 0u32;
                    loop {
                        let (id, serial) = (p.id, p.serial);
                        let hd = self.handles.get(&h).unwrap();
                        let (idx, r) = api(OpK::TrySend, h, NO_STREAM, id, serial, || hd.k.try_send(p));
                        match r {
                            Ok(()) => {
                                ret(idx, Res::Ok);
                                continue 'values;
                            }
                            Err(TrySendError::Full(b)) => {
                                hist::update(idx, |r| r.back_serial = b.serial);
                                ret(idx, Res::Full);
                                p = b;
                            }
                            Err(TrySendError::Disconnected(b)) => {
                                hist::update(idx, |r| r.back_serial = b.serial);
                                ret(idx, Res::Disc);
                                drop(b);
                                return;
                            }
                        }
                        tries += 1;
                        if max_retry != UNLIMITED {
                            bounded_tick();
                            if tries > max_retry {
                                drop(p);
                                continue 'values;
                            }
                        }
                        rt::shim::yield_now();
                    }
                }
            }
            SendApi::Sink => {
                if !self.handles.get(&h).map(|x| x.k.is_fut()).unwrap_or(false) {
                    return harness_error("sink send on a plain sender".into());
                }
                let spurious = self.sh.scn.spurious_poll;
                let mut rng = self.rng.fork();
                let hd = self.handles.get_mut(&h).unwrap();
                let fut = SendFut {
                    hd,
                    remaining: n,
                    cur: None,
                    tries: 0,
                    max_retry,
                };
                run_task(fut, spurious, &mut rng);
            }
        }
    }

    // ---------------------------------------------------------------- receiving

    fn consume(&mut self, h: u32, rapi: RecvApi, quota: u32, max_empty: u32, after_end: u8) {
        let stream = match self.handles.get(&h) {
            None => return,
            Some(hd) if hd.k.is_sender() => return harness_error("consume on a sender".into()),
            Some(hd) => hd.stream,
        };
        if quota == 0 {
            return;
        }
        // into_single may legitimately have failed (a clone handed to another thread is
        // still alive): fall back to the entry point that does not need a single consumer
        let plain_uni = self.handles.get(&h).map(|x| x.k.is_plain_uni()).unwrap_or(false);
        let rapi = if plain_uni {
            rapi
        } else {
            match rapi {
                RecvApi::TryRecvView => RecvApi::TryRecv,
                RecvApi::RecvView => RecvApi::Recv,
                RecvApi::IterWith => RecvApi::Iter,
                RecvApi::TryIterWith => RecvApi::TryIter,
                other => other,
            }
        };
        match rapi {
            RecvApi::Iter | RecvApi::IterWith => {
                let hd = self.handles.remove(&h).unwrap();
                let with = rapi == RecvApi::IterWith;
                let opk = if with { OpK::IterWithNext } else { OpK::IterNext };
                if hd.k.is_fut() || (with && !hd.k.is_plain_uni()) {
                    harness_error(format!("{} on {}", rapi.name(), hd.k.kind()));
                    self.handles.insert(h, hd);
                    return;
                }
                let mut it = OwnedIter::new(hd.k, with);
                let mut got = 0u32;
                let mut ended = false;
                loop {
                    let (idx, r) = api(opk, h, stream, 0, NONE, || it.next());
                    match r {
                        Some(v) => {
                            ret(idx, Res::Val(v));
                            got += 1;
                            if quota != UNLIMITED && got >= quota {
                                break;
                            }
                        }
                        None => {
                            ret(idx, Res::End);
                            ended = true;
                            break;
                        }
                    }
                }
                if ended {
                    for _ in 0..after_end {
                        let (idx, r) = api(opk, h, stream, 0, NONE, || it.next());
                        ret(idx, match r {
                            Some(v) => Res::Val(v),
                            None => Res::End,
                        });
                    }
                }
                let (idx, _) = api(OpK::DropRecv, h, stream, 0, NONE, move || drop(it));
                rt::with(|r| r.fault(rt::Fault::PartyLeaves));
                ret(idx, Res::Ok);
            }
            RecvApi::Poll => {
                if !self.handles.get(&h).map(|x| x.k.is_fut()).unwrap_or(false) {
                    return harness_error("poll on a plain receiver".into());
                }
                let spurious = self.sh.scn.spurious_poll;
                let mut rng = self.rng.fork();
                let hd = self.handles.get_mut(&h).unwrap();
                let fut = RecvFut {
                    hd,
                    quota,
                    got: 0,
                    after_end,
                    ended: false,
                    max_empty,
                    empties: 0,
                };
                run_task(fut, spurious, &mut rng);
            }
            _ => {
                let mut got = 0u32;
                let mut empties = 0u32;
                let mut ended = false;
                loop {
                    let r = self.recv_once(h, stream, rapi);
                    match r {
                        Res::Val(_) => {
                            got += 1;
                            empties = 0;
                            if quota != UNLIMITED && got >= quota {
                                break;
                            }
                        }
                        Res::Empty => {
                            empties += 1;
                            if max_empty != UNLIMITED {
                                bounded_tick();
                                if empties > max_empty {
                                    break;
                                }
                            }
                            rt::shim::yield_now();
                        }
                        Res::End => {
                            ended = true;
                            break;
                        }
                        _ => break,
                    }
                }
                if ended {
                    for _ in 0..after_end {
                        self.recv_once(h, stream, rapi);
                    }
                }
            }
        }
    }

    /// One receive call through a non-consuming entry point, recorded.
    fn recv_once(&mut self, h: u32, stream: u32, rapi: RecvApi) -> Res {
        let hd = match self.handles.get_mut(&h) {
            Some(hd) => hd,
            None => return Res::Open,
        };
        let bad = |hd: &Handle| harness_error(format!("{} on {}", rapi.name(), hd.k.kind()));
        let res;
        let idx;
        match rapi {
            RecvApi::TryRecv => {
                let (i, r) = api(OpK::TryRecv, h, stream, 0, NONE, || hd.k.try_recv());
                idx = i;
                res = match r {
                    Ok(v) => Res::Val(v),
                    Err(TryRecvError::Empty) => Res::Empty,
                    Err(TryRecvError::Disconnected) => Res::End,
                };
            }
            RecvApi::Recv => {
                let (i, r) = api(OpK::Recv, h, stream, 0, NONE, || hd.k.recv());
                idx = i;
                res = match r {
                    Ok(v) => Res::Val(v),
                    Err(_) => Res::End,
                };
            }
            RecvApi::TryRecvView => {
                if !hd.k.is_plain_uni() {
                    bad(hd);
                    return Res::Open;
                }
                let (i, r) = api(OpK::TryRecvView, h, stream, 0, NONE, || hd.k.try_recv_view());
                idx = i;
                res = match r {
                    Ok(v) => Res::Val(v),
                    Err(TryRecvError::Empty) => Res::Empty,
                    Err(TryRecvError::Disconnected) => Res::End,
                };
            }
            RecvApi::RecvView => {
                if !hd.k.is_plain_uni() {
                    bad(hd);
                    return Res::Open;
                }
                let (i, r) = api(OpK::RecvView, h, stream, 0, NONE, || hd.k.recv_view());
                idx = i;
                res = match r {
                    Ok(v) => Res::Val(v),
                    Err(_) => Res::End,
                };
            }
            RecvApi::TryIter | RecvApi::TryIterWith => {
                let with = rapi == RecvApi::TryIterWith;
                if hd.k.is_fut() || (with && !hd.k.is_plain_uni()) {
                    bad(hd);
                    return Res::Open;
                }
                let opk = if with { OpK::TryIterWithNext } else { OpK::TryIterNext };
                let (i, r) = api(opk, h, stream, 0, NONE, || hd.k.try_iter_next(with));
                idx = i;
                // None means Empty *or* Disconnected: not an end-of-stream claim
                res = match r {
                    Some(v) => Res::Val(v),
                    None => Res::Empty,
                };
            }
            _ => unreachable!(),
        }
        ret(idx, res);
        res
    }

    // ---------------------------------------------------------------- solo (C18)

    fn solo_try(&mut self, h: u32, kind: TryKind) {
        let me = cur();
        let stream = match self.handles.get(&h) {
            None => return,
            Some(hd) => hd.stream,
        };
        let sending = matches!(kind, TryKind::Send | TryKind::StartSend);
        if sending != self.handles[&h].k.is_sender() {
            return harness_error("solo_try kind does not fit the handle".into());
        }
        let p = if sending { self.next_value(h) } else { None };
        // The short critical sections on the queue's internal mutexes are mutual exclusion,
        // not waiting for queue progress: for the futures entry points (C15) freeze the
        // others only at a state in which none of them holds a lock. The plain try
        // operations (C18) take no lock at all, so there the freeze is unconditional.
        let needs_lock_free = matches!(kind, TryKind::Poll | TryKind::StartSend) || self.sh.scn.queue.fut;
        let mut freeze = true;
        if needs_lock_free {
            let mut tries = 0;
            loop {
                let held = rt::with(|r| (0..MAX_TASKS).any(|t| t != me && r.locks_held[t].get() > 0));
                if !held {
                    break;
                }
                tries += 1;
                if tries > 64 {
                    freeze = false;
                    break;
                }
                rt::shim::yield_now();
            }
        }
        let hd = self.handles.get_mut(&h).unwrap();
        if freeze {
            rt::with(|r| {
                r.solo_blocked.set(false);
                r.solo.set(Some(me));
            });
        }
        let s0 = rt::with(|r| r.task_steps[me].get());
        let idx;
        let res;
        let nh: NotifyHandle = NotifyHandle::from(Arc::new(NoNotify));
        match kind {
            TryKind::Send => {
                let p = p.unwrap();
                let (id, serial) = (p.id, p.serial);
                let (i, r) = api(OpK::TrySend, h, NO_STREAM, id, serial, || hd.k.try_send(p));
                idx = i;
                res = match r {
                    Ok(()) => Res::Ok,
                    Err(TrySendError::Full(b)) => {
                        hist::update(idx, |r| r.back_serial = b.serial);
                        Res::Full
                    }
                    Err(TrySendError::Disconnected(b)) => {
                        hist::update(idx, |r| r.back_serial = b.serial);
                        Res::Disc
                    }
                };
            }
            TryKind::StartSend => {
                let p = p.unwrap();
                let (id, serial) = (p.id, p.serial);
                let k = &mut hd.k;
                let (i, r) = api(OpK::StartSend, h, NO_STREAM, id, serial, || {
                    let mut out = None;
                    let mut pp = Some(p);
                    let mut sp = executor::spawn(futures::future::poll_fn(|| -> Poll<(), ()> {
                        out = Some(k.start_send(pp.take().unwrap()));
                        Ok(Async::Ready(()))
                    }));
                    let _ = sp.poll_future_notify(&nh, 0);
                    drop(sp);
                    out.unwrap()
                });
                idx = i;
                res = match r {
                    Ok(AsyncSink::Ready) => Res::Ok,
                    Ok(AsyncSink::NotReady(b)) => {
                        hist::update(idx, |r| r.back_serial = b.serial);
                        Res::NotReady
                    }
                    Err(e) => {
                        hist::update(idx, |r| r.back_serial = e.0.serial);
                        Res::Disc
                    }
                };
            }
            TryKind::Recv => {
                let (i, r) = api(OpK::TryRecv, h, stream, 0, NONE, || hd.k.try_recv());
                idx = i;
                res = match r {
                    Ok(v) => Res::Val(v),
                    Err(TryRecvError::Empty) => Res::Empty,
                    Err(TryRecvError::Disconnected) => Res::End,
                };
            }
            TryKind::RecvView => {
                let (i, r) = api(OpK::TryRecvView, h, stream, 0, NONE, || hd.k.try_recv_view());
                idx = i;
                res = match r {
                    Ok(v) => Res::Val(v),
                    Err(TryRecvError::Empty) => Res::Empty,
                    Err(TryRecvError::Disconnected) => Res::End,
                };
            }
            TryKind::Poll => {
                let k = &mut hd.k;
                let (i, r) = api(OpK::Poll, h, stream, 0, NONE, || {
                    let mut out = None;
                    let mut sp = executor::spawn(futures::future::poll_fn(|| -> Poll<(), ()> {
                        out = Some(k.poll());
                        Ok(Async::Ready(()))
                    }));
                    let _ = sp.poll_future_notify(&nh, 0);
                    drop(sp);
                    out.unwrap()
                });
                idx = i;
                res = match r {
                    Ok(Async::Ready(Some(v))) => Res::Val(v),
                    Ok(Async::Ready(None)) => Res::End,
                    Ok(Async::NotReady) => Res::NotReady,
                    Err(()) => Res::Panic,
                };
            }
        }
        let (s1, blocked) = rt::with(|r| {
            r.solo.set(None);
            (r.task_steps[me].get(), r.solo_blocked.replace(false))
        });
        hist::update(idx, |r| {
            r.solo = freeze;
            r.own_steps = (s1 - s0) as u32;
            r.solo_blocked = blocked;
        });
        ret(idx, res);
    }

    // ---------------------------------------------------------------- end of run

    fn stream_reps(&self) -> Vec<u32> {
        // one handle (the lowest id) per surviving stream
        let mut by_stream: BTreeMap<u32, u32> = BTreeMap::new();
        for (id, h) in &self.handles {
            if !h.k.is_sender() {
                by_stream.entry(h.stream).or_insert(*id);
            }
        }
        by_stream.values().copied().collect()
    }

    fn drain(&mut self, h: u32, cap: u32) -> bool {
        let stream = self.handles[&h].stream;
        for _ in 0..cap {
            match self.recv_once(h, stream, RecvApi::TryRecv) {
                Res::Val(_) => {}
                Res::End => return true,
                _ => return false,
            }
        }
        false
    }

    /// C06: all threads are joined; fill and drain the queue and let the oracle compare
    /// with the model state computed from the history.
    fn quiescent_probe(&mut self) {
        let n = self.sh.scn.queue.capacity() as u32;
        let reps = self.stream_reps();
        let sender = self.handles.iter().find(|(_, h)| h.k.is_sender()).map(|(id, _)| *id);
        for &r in &reps {
            self.drain(r, 4 * n + 64);
        }
        for _round in 0..2 {
            if let Some(s) = sender {
                if reps.is_empty() {
                    break;
                }
                // send until refused
                for _ in 0..(2 * n + 2) {
                    let p = match self.next_value(s) {
                        Some(p) => p,
                        None => break,
                    };
                    let (id, serial) = (p.id, p.serial);
                    let hd = self.handles.get(&s).unwrap();
                    let (idx, r) = api(OpK::TrySend, s, NO_STREAM, id, serial, || hd.k.try_send(p));
                    match r {
                        Ok(()) => ret(idx, Res::Ok),
                        Err(TrySendError::Full(b)) => {
                            hist::update(idx, |r| r.back_serial = b.serial);
                            ret(idx, Res::Full);
                            break;
                        }
                        Err(TrySendError::Disconnected(b)) => {
                            hist::update(idx, |r| r.back_serial = b.serial);
                            ret(idx, Res::Disc);
                            break;
                        }
                    }
                }
            }
            for &r in &reps {
                self.drain(r, 4 * n + 64);
            }
        }
    }

    fn teardown(&mut self) {
        let scn = &self.sh.scn;
        let n = scn.queue.capacity() as u32;
        let senders: Vec<u32> = self.handles.iter().filter(|(_, h)| h.k.is_sender()).map(|(i, _)| *i).collect();
        let receivers: Vec<u32> = self.handles.iter().filter(|(_, h)| !h.k.is_sender()).map(|(i, _)| *i).collect();
        let final_drain = scn.final_drain;
        let order: Vec<u32> = if final_drain {
            for s in &senders {
                self.exec_op(&Op::DropSender { h: *s });
            }
            for r in self.stream_reps() {
                self.drain(r, 4 * n + 64);
            }
            receivers
        } else {
            match scn.teardown {
                Teardown::SendersFirst => senders.iter().chain(receivers.iter()).copied().collect(),
                Teardown::ReceiversFirst => receivers.iter().chain(senders.iter()).copied().collect(),
                Teardown::Mixed(k) => {
                    let mut all: Vec<u32> = senders.iter().chain(receivers.iter()).copied().collect();
                    let mut r = Rng::new(k as u64);
                    for i in (1..all.len()).rev() {
                        let j = r.below(i as u64 + 1) as usize;
                        all.swap(i, j);
                    }
                    all
                }
            }
        };
        for h in order {
            let is_sender = match self.handles.get(&h) {
                Some(x) => x.k.is_sender(),
                None => continue,
            };
            if is_sender {
                self.exec_op(&Op::DropSender { h });
            } else {
                self.exec_op(&Op::DropRecv { h });
            }
        }
    }
}

// ------------------------------------------------------------------- task futures

struct SendFut<'a> {
    hd: &'a mut Handle,
    remaining: u32,
    cur: Option<P>,
    tries: u32,
    max_retry: u32,
}

impl<'a> Future for SendFut<'a> {
    type Item = ();
    type Error = ();
    fn poll(&mut self) -> Poll<(), ()> {
        loop {
            let p = match self.cur.take() {
                Some(p) => p,
                None => {
                    if self.remaining == 0 {
                        return Ok(Async::Ready(()));
                    }
                    let seq = self.hd.seq;
                    self.hd.seq += 1;
                    self.tries = 0;
                    P::new(payload::make_id(self.hd.id, seq))
                }
            };
            let (id, serial) = (p.id, p.serial);
            let h = self.hd.id;
            let k = &mut self.hd.k;
            let (idx, r) = api(OpK::StartSend, h, NO_STREAM, id, serial, || k.start_send(p));
            match r {
                Ok(AsyncSink::Ready) => {
                    ret(idx, Res::Ok);
                    self.remaining -= 1;
                }
                Ok(AsyncSink::NotReady(b)) => {
                    hist::update(idx, |r| r.back_serial = b.serial);
                    ret(idx, Res::NotReady);
                    self.tries += 1;
                    if self.max_retry != UNLIMITED {
                        bounded_tick();
                    }
                    if self.max_retry != UNLIMITED && self.tries > self.max_retry {
                        drop(b);
                        self.remaining -= 1;
                        continue;
                    }
                    self.cur = Some(b);
                    if self.max_retry != UNLIMITED {
                        // a bounded sender does not wait to be woken: it polls again
                        futures::task::current().notify();
                        rt::shim::yield_now();
                    }
                    return Ok(Async::NotReady);
                }
                Err(e) => {
                    hist::update(idx, |r| r.back_serial = e.0.serial);
                    ret(idx, Res::Disc);
                    drop(e);
                    self.remaining = 0;
                    return Ok(Async::Ready(()));
                }
            }
        }
    }
}

struct RecvFut<'a> {
    hd: &'a mut Handle,
    quota: u32,
    got: u32,
    after_end: u8,
    ended: bool,
    /// give up (stop polling) after this many NotReady results in a row
    max_empty: u32,
    empties: u32,
}

impl<'a> Future for RecvFut<'a> {
    type Item = ();
    type Error = ();
    fn poll(&mut self) -> Poll<(), ()> {
        loop {
            let (h, stream) = (self.hd.id, self.hd.stream);
            let k = &mut self.hd.k;
            let (idx, r) = api(OpK::Poll, h, stream, 0, NONE, || k.poll());
            match r {
                Ok(Async::Ready(Some(v))) => {
                    ret(idx, Res::Val(v));
                    self.got += 1;
                    self.empties = 0;
                    if self.ended {
                        // a value after the end of the stream: keep it in the history
                        if self.after_end == 0 {
                            return Ok(Async::Ready(()));
                        }
                        self.after_end -= 1;
                        continue;
                    }
                    if self.quota != UNLIMITED && self.got >= self.quota {
                        return Ok(Async::Ready(()));
                    }
                }
                Ok(Async::Ready(None)) => {
                    ret(idx, Res::End);
                    self.ended = true;
                    if self.after_end == 0 {
                        return Ok(Async::Ready(()));
                    }
                    self.after_end -= 1;
                }
                Ok(Async::NotReady) => {
                    ret(idx, Res::NotReady);
                    if self.ended {
                        // NotReady after the end was reported: recorded; stop polling
                        return Ok(Async::Ready(()));
                    }
                    if self.max_empty != UNLIMITED {
                        // a consumer that does not want to wait: poll again right away (it
                        // notifies itself) and walk away after max_empty attempts
                        self.empties += 1;
                        bounded_tick();
                        if self.empties > self.max_empty {
                            return Ok(Async::Ready(()));
                        }
                        futures::task::current().notify();
                        rt::shim::yield_now();
                    }
                    return Ok(Async::NotReady);
                }
                Err(()) => {
                    ret(idx, Res::Panic);
                    return Ok(Async::Ready(()));
                }
            }
        }
    }
}

// --------------------------------------------------------------------- main body

fn body() {
    let sh = CURRENT.with(|c| c.borrow().clone()).expect("no current scenario");
    let mut main = Ctx::new(sh.clone(), 0);
    hist::set_phase(0);
    let (idx, (tx, rx)) = api(OpK::Create, 0, 0, 0, NONE, || sh.scn.queue.create());
    hist::update(idx, |r| r.new_h = 1);
    ret(idx, Res::Ok);
    if let Some(calls) = &sh.scn.seq {
        // sequential engine: every return value is compared with the reference model
        let mut run = crate::seq::SeqRun::new(&sh, tx, rx);
        run.run(calls);
        let aborted = run.aborted;
        FINAL.with(|f| {
            let mut f = f.borrow_mut();
            f.seq_calls = run.calls;
            f.samples = std::mem::take(&mut run.samples);
            f.seq_violations = run.violations.drain(..).map(|v| (v.class, v.site, v.msg)).collect();
        });
        main.handles = std::mem::take(&mut run.handles);
        drop(run);
        hist::set_phase(2);
        if aborted {
            // the model and the queue have diverged: just let go of everything
            main.handles.clear();
        } else {
            main.teardown();
        }
        drop(main);
        finish();
        return;
    }
    main.handles.insert(0, Handle { id: 0, stream: NO_STREAM, seq: 0, k: tx });
    main.handles.insert(1, Handle { id: 1, stream: 0, seq: 0, k: rx });
    for op in &sh.scn.setup {
        main.exec_op(op);
    }
    let mut joins = Vec::new();
    for (i, t) in sh.scn.threads.iter().enumerate() {
        if !t.spawned {
            let hs = main.take_handles(&t.handles);
            joins.push(spawn_thread(&sh, i, hs));
        }
    }
    // C04 add-on: a producer / consumer pair on a queue of drop-glue-free values
    let pod_joins = if sh.scn.pod != 0 { Some(crate::pod::start(sh.scn.pod, sh.scn.slow_view)) } else { None };
    for op in &sh.scn.main_prog {
        main.exec_op(op);
    }
    main.children.extend(joins);
    main.join_children();
    if let Some((a, b)) = pod_joins {
        let _ = a.join();
        let _ = b.join();
    }
    hist::set_phase(1);
    if sh.scn.probe {
        main.quiescent_probe();
    }
    hist::set_phase(2);
    main.teardown();
    drop(main);
    finish();
}

fn finish() {
    FINAL.with(|f| {
        let mut f = f.borrow_mut();
        f.live_bytes_after = rt::galloc::live_bytes();
        f.live_blocks_after = rt::galloc::live_blocks();
        f.peak_bytes = rt::galloc::peak_bytes();
        rt::with(|r| {
            f.seam_bytes_after = r.seam_live_bytes.get();
            f.seam_blocks_after = r.seam_live_blocks.get();
            f.seam_survivors = r.live.borrow().values().map(|b| (rt::state::short_ty(b.ty).to_string(), b.len)).collect();
        });
        if f.live_blocks_after != 0 {
            for sz in rt::galloc::survivors() {
                f.seam_survivors.push((format!("heap block of {} bytes", sz), sz));
            }
        }
        f.teardown_done = true;
    });
    COMPLETED.with(|c| c.set(true));
}

// ----------------------------------------------------------------------- batch

pub trait RunSource {
    /// next scenario to run, or None when the batch is over
    fn next(&mut self) -> Option<(Scenario, SchedCfg)>;
    fn done(&mut self, outcome: RunOutcome);
}

fn install_panic_hook() {
    use std::sync::Once;
    static ONCE: Once = Once::new();
    ONCE.call_once(|| {
        std::panic::set_hook(Box::new(|info| {
            let msg = if let Some(s) = info.payload().downcast_ref::<&str>() {
                s.to_string()
            } else if let Some(s) = info.payload().downcast_ref::<String>() {
                s.clone()
            } else {
                "panic".to_string()
            };
            let loc = info.location().map(|l| format!(" at {}:{}", l.file(), l.line())).unwrap_or_default();
            if std::env::var_os("VERIF_DEBUG").is_some() {
                eprintln!("[panic] {}{}\n{}", msg, loc, std::backtrace::Backtrace::force_capture());
            }
            let _ = PANIC_MSG.try_with(|p| {
                if let Ok(mut p) = p.try_borrow_mut() {
                    if p.is_none() {
                        *p = Some(format!("{}{}", msg, loc));
                        let _ = PANIC_TASK.try_with(|t| t.set(rt::with(|r| r.cur.get())));
                    }
                }
            });
        }));
    });
}

fn collect(core: &mut Option<Core>, end_hint: Option<End>) -> RunOutcome {
    let core = core.take().expect("core");
    let (recs, notes) = hist::take();
    let completed = COMPLETED.with(|c| c.replace(false));
    let panic_msg = PANIC_MSG.with(|p| p.borrow_mut().take());
    let mut end = match end_hint {
        Some(e) => e,
        None => {
            if core.end != End::Running {
                core.end
            } else if completed {
                End::Completed
            } else {
                End::Stopped
            }
        }
    };
    if end == End::Panic {
        if let Some(m) = &panic_msg {
            if m.starts_with("deadlock!") {
                end = End::Deadlock;
            }
        }
    }
    let mut stats = RunStats::default();
    let solo_task = rt::with(|r| r.solo.get());
    let (mem, solo_blocked) = rt::with(|r| {
        stats.steps = r.steps.get();
        stats.task_steps = (0..core.max_tasks_seen.max(1)).map(|i| r.task_steps[i].get()).collect();
        for i in 0..N_PROBES {
            stats.probes[i] = r.probes[i].get();
        }
        for i in 0..N_FAULTS {
            stats.faults[i] = r.faults[i].get();
        }
        stats.contention = r.contention.get();
        stats.ilv = r.ilv.get();
        stats.sim_time_ms = r.sim_time_ms.get();
        r.active.set(false);
        (r.mem_violation.borrow_mut().take(), r.solo_blocked.get())
    });
    stats.preempts_in_api = core.preempts_in_api;
    stats.preemptions = core.preemptions;
    stats.context_switches = core.context_switches;
    stats.tasks = core.max_tasks_seen;
    let (payloads, clones, views) = payload::counts();
    stats.payloads = payloads;
    stats.clones = clones;
    stats.views = views;
    let mut mem = mem;
    if let Some((_addr, size)) = rt::galloc::take_double_free() {
        if mem.is_none() {
            mem = Some(rt::state::MemViolation {
                class: "double_free",
                what: format!("a heap block of {} bytes owned by the queue's bookkeeping (e.g. the reader list inside a ReaderGroup) was freed twice", size),
                step: stats.steps,
                task: 0,
            });
        }
    }
    let ledger = payload::take_violations();
    let leaks = if end == End::Completed { payload::leak_report() } else { Vec::new() };
    let fin = FINAL.with(|f| std::mem::take(&mut *f.borrow_mut()));
    let harness_errors = ERRORS.with(|e| std::mem::take(&mut *e.borrow_mut()));
    rt::galloc::release_quarantine();
    RunOutcome {
        end,
        recs,
        notes,
        ledger,
        leaks,
        mem,
        panic_msg,
        stats,
        record: core.record,
        fin,
        solo_blocked,
        harness_errors,
        diverged_at: core.diverged_at,
        panic_task: PANIC_TASK.with(|t| t.replace(usize::MAX)),
        solo_task,
    }
}

/// Run scenarios from `src` until it is exhausted. One Runner serves many executions; a
/// run that ends in a panic (task panic, engine-reported deadlock) unwinds the Runner,
/// which is then simply recreated.
pub fn run_batch(src: &mut dyn RunSource) {
    warm_up();
    install_panic_hook();
    // safety: the closure below only runs on this thread, inside this function
    let src_ptr: *mut dyn RunSource = src;
    let src_ptr: *mut (dyn RunSource + 'static) = unsafe { std::mem::transmute(src_ptr) };
    let core: Rc<RefCell<Option<Core>>> = Rc::new(RefCell::new(None));
    let finished = Rc::new(Cell::new(false));
    let running = Rc::new(Cell::new(false));

    loop {
        let core2 = core.clone();
        let finished2 = finished.clone();
        let running2 = running.clone();
        let next: Rc<RefCell<dyn FnMut() -> bool>> = Rc::new(RefCell::new(move || {
            let src = unsafe { &mut *src_ptr };
            if running2.get() {
                // the previous execution ended without unwinding
                running2.set(false);
                let out = collect(&mut core2.borrow_mut(), None);
                src.done(out);
            }
            match src.next() {
                None => {
                    finished2.set(true);
                    false
                }
                Some((scn, cfg)) => {
                    prepare(&scn, &cfg);
                    *core2.borrow_mut() = Some(Core::new(cfg));
                    running2.set(true);
                    true
                }
            }
        }));
        let sched = SimSched { core: core.clone(), next };
        let mut config = shuttle_engine::Config::new();
        config.max_steps = shuttle_engine::MaxSteps::None;
        config.failure_persistence = shuttle_engine::FailurePersistence::None;
        config.stack_size = 0x40000;
        config.silence_warnings = true;
        let runner = shuttle_engine::Runner::new(sched, config);
        let r = std::panic::catch_unwind(std::panic::AssertUnwindSafe(|| {
            runner.run(body);
        }));
        if r.is_err() {
            if running.get() {
                running.set(false);
                let out = collect(&mut core.borrow_mut(), Some(End::Panic));
                unsafe { &mut *src_ptr }.done(out);
            }
        }
        if finished.get() {
            break;
        }
    }
}

/// Run one empty execution so that the engine installs its own (printing) panic hook
/// first; ours then replaces it.
fn warm_up() {
    use std::sync::Once;
    static ONCE: Once = Once::new();
    ONCE.call_once(|| {
        let n = Rc::new(Cell::new(0));
        let n2 = n.clone();
        let next: Rc<RefCell<dyn FnMut() -> bool>> = Rc::new(RefCell::new(move || {
            n2.set(n2.get() + 1);
            n2.get() == 1
        }));
        let core = Rc::new(RefCell::new(Some(Core::new(SchedCfg::new(1, crate::sched::Strategy::Uniform)))));
        let sched = SimSched { core, next };
        let mut config = shuttle_engine::Config::new();
        config.failure_persistence = shuttle_engine::FailurePersistence::None;
        shuttle_engine::Runner::new(sched, config).run(|| {});
    });
}

fn prepare(scn: &Scenario, cfg: &SchedCfg) {
    hist::reset();
    COMPLETED.with(|c| c.set(false));
    PANIC_MSG.with(|p| *p.borrow_mut() = None);
    ERRORS.with(|e| e.borrow_mut().clear());
    FINAL.with(|f| *f.borrow_mut() = FinalInfo::default());
    FUT_SLOTS.with(|s| {
        for c in s.iter() {
            c.set(std::ptr::null_mut())
        }
    });
    let mut latches = Vec::new();
    for _ in 0..8 {
        latches.push(Latch::new());
    }
    let sh = Arc::new(Shared {
        scn: scn.clone(),
        latches,
        seed: cfg.seed,
    });
    CURRENT.with(|c| *c.borrow_mut() = Some(sh));
    rt::galloc::reset_counts();
    if let Some(sz) = std::env::var("VERIF_TRACE_ALLOC").ok().and_then(|s| s.parse().ok()) {
        rt::galloc::trace_size(sz);
    }
    rt::with(|r| {
        r.reset(cfg.seed ^ 0xFA17);
        r.weak_cas_rate.set(scn.weak_cas_rate);
        r.quarantine.set(scn.quarantine);
        if let Some((p, nth, len)) = scn.trap {
            r.trap_probe.set(p as usize);
            r.trap_countdown.set(nth);
            r.trap_len.set(len);
            if let Some(t) = scn.trap_thread {
                // non-spawned threads are started by main in order: task id = index + 1
                r.trap_task.set(t as usize + 1);
            }
        }
        payload::reset(r.exec_id.get(), scn.slow_clone, scn.slow_view, scn.slow_drop);
        r.trace.set(std::env::var_os("VERIF_TRACE").is_some());
        r.post_write.set(scn.post_write);
        r.post_load.set(scn.post_load);
        r.active.set(true);
    });
    rt::galloc::set_quarantine(scn.quarantine);
}
