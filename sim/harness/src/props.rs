//! Property table: which families a property's check samples, which oracles it evaluates,
//! and how large the quick / thorough tiers are.

use crate::analysis::Analysis;
use crate::exec::RunOutcome;
use crate::families::{self, CoreOpts};
use crate::oracles::{self, Violation};
use crate::prng::Rng;
use crate::scenario::Scenario;
use crate::sched::{End, SchedCfg};

pub const ALL: [&str; 18] = [
    "C01", "C02", "C03", "C04", "C05", "C06", "C07", "C08", "C09", "C10", "C11", "C12", "C13", "C14", "C15", "C16", "C17", "C18",
];

pub fn prop_static(p: &str) -> Option<&'static str> {
    ALL.iter().find(|x| **x == p).copied()
}

pub fn salt(p: &str) -> u64 {
    p.bytes().fold(0xABCD_u64, |a, b| a.wrapping_mul(131).wrapping_add(b as u64))
}

/// (runs, wall-clock budget in seconds). Run counts are fixed so that a given seed always
/// explores the same cases; the budget is only a safety cap for slow machines.
pub fn tier_size(p: &str, thorough: bool) -> (u64, u64) {
    // approximate cost classes measured on the 16-core sandbox (runs per second)
    let per_s: u64 = match p {
        "C04" => 7_000,
        "C03" | "C06" => 12_000,
        "C01" | "C02" => 16_000,
        "C15" => 14_000,
        "C18" => 5_000,
        "C09" => 30_000,
        "C13" => 50_000,
        _ => 20_000,
    };
    if thorough {
        (per_s * 600, 840)
    } else {
        (per_s * 20, 45)
    }
}

/// Generate the scenario of run `seed` for property `p`.
pub fn generate(p: &str, seed: u64) -> (Scenario, SchedCfg) {
    let mut r = Rng::new(seed ^ 0xFA31);
    let sub = r.next();
    let w = r.below(100);
    match p {
        "C01" | "C02" => {
            if w < 45 {
                families::core(sub, "core", &CoreOpts::default())
            } else if w < 75 {
                families::core(
                    sub,
                    "shared",
                    &CoreOpts { force_shared: true, max_streams: 1, small_cap: true, zero_spins: true, max_producers: 2, ..Default::default() },
                )
            } else {
                families::core(sub, "fut", &CoreOpts { fut: true, small_cap: true, ..Default::default() })
            }
        }
        "C03" => {
            if w < 50 {
                families::core(sub, "core", &CoreOpts::default())
            } else if w < 85 {
                families::core(sub, "cap", &CoreOpts { min_values_factor: 2, ..Default::default() })
            } else {
                families::core(sub, "fut", &CoreOpts { fut: true, small_cap: true, ..Default::default() })
            }
        }
        "C04" => families::core(sub, "slowclone", &CoreOpts { slow: true, small_cap: true, min_values_factor: 3, ..Default::default() }),
        "C06" => {
            if w < 50 {
                families::core(sub, "core", &CoreOpts::default())
            } else {
                families::core(sub, "shared", &CoreOpts { force_shared: true, max_streams: 1, small_cap: true, ..Default::default() })
            }
        }
        "C07" => families::disconnect(sub),
        "C09" => families::seq_family(sub, "seq", None, &crate::seq::SeqOpts { len_max: 400, mpmc_second_stream: false, fut_bias: 40, churn: false, norecv: false }),
        "C08" => families::blockrecv(sub),
        "C13" => {
            if w < 40 {
                families::seq_family(sub, "seq.norecv", None, &crate::seq::SeqOpts { len_max: 40, mpmc_second_stream: false, fut_bias: 50, churn: false, norecv: true })
            } else {
                families::norecv(sub)
            }
        }
        "C14" => families::futpark(sub),
        "C15" => {
            if w < 35 {
                families::seq_family(sub, "seq.fut", Some(true), &crate::seq::SeqOpts { len_max: 300, mpmc_second_stream: false, fut_bias: 100, churn: false, norecv: false })
            } else if w < 70 {
                families::core(sub, "fut.direct", &CoreOpts { fut: true, small_cap: true, fut_direct: true, ..Default::default() })
            } else {
                families::core(sub, "fut.solo", &CoreOpts { fut: true, small_cap: true, solo: 2, max_consumers: 2, ..Default::default() })
            }
        }
        "C18" => {
            let o = CoreOpts { solo: 1, no_notify_wait: true, max_consumers: 2, ..Default::default() };
            if w < 50 {
                families::core(sub, "core.solo", &o)
            } else {
                families::core(sub, "shared.solo", &CoreOpts { force_shared: true, max_streams: 1, small_cap: true, ..o })
            }
        }
        _ => families::core(sub, "core", &CoreOpts::default()),
    }
}

/// Property-specific part of the non-triviality rule (evidence text).
pub fn nontrivial_extra(p: &str) -> &'static str {
    match p {
        "C08" => "; for C08 additionally a consumer must have entered the wait strategy (a blocking receive that found the queue empty)",
        "C14" => "; for C14 additionally at least one task must have parked (NotReady returned to the executor)",
        "C04" => "; for C04 additionally a clone or view must have been suspended in the middle (slow_clone / slow_view fired)",
        "C07" => "; for C07 additionally an end-of-stream result must have been reported while the run was still concurrent",
        _ => "",
    }
}

pub struct Verdict {
    pub violations: Vec<Violation>,
    /// the run exercised what the family aims at (see evidence `rule`)
    pub nontrivial: bool,
    /// harness problem (exit 2), never a violation
    pub harness_error: Option<String>,
}

pub fn evaluate(p: &str, scn: &Scenario, o: &RunOutcome) -> Verdict {
    let prop = prop_static(p).unwrap_or("C00");
    let complete = o.end == End::Completed;
    let a = Analysis::new(&o.recs, complete);
    let mut vs: Vec<Violation> = Vec::new();
    let mut harness_error = None;
    if !o.harness_errors.is_empty() {
        harness_error = Some(format!("harness errors: {:?}", o.harness_errors));
    }
    match o.end {
        End::StepCap => harness_error = Some("step budget exhausted".into()),
        End::ReplayDiverged => harness_error = Some(format!("replay diverged at step {:?}", o.diverged_at)),
        End::Panic => {
            let msg = o.panic_msg.clone().unwrap_or_default();
            if msg.starts_with("harness:") || msg.starts_with("verif shim:") || msg.contains("harness/src") {
                harness_error = Some(format!("harness panic: {}", msg));
            }
        }
        _ => {}
    }
    vs.extend(oracles::panic_violation(prop, &a, o));
    let stuck = matches!(o.end, End::Deadlock | End::Livelock);
    match p {
        "C01" => vs.extend(oracles::c01(&a, scn)),
        "C02" => vs.extend(oracles::c02(&a, scn)),
        "C03" => vs.extend(oracles::c03(&a, scn)),
        "C04" => vs.extend(oracles::c04(o)),
        "C05" => vs.extend(oracles::c05(o)),
        "C06" => vs.extend(oracles::c06(&a, scn)),
        "C07" => vs.extend(oracles::c07(&a, scn)),
        "C08" => vs.extend(oracles::c08(&a, o)),
        "C14" => vs.extend(oracles::c14(&a, o)),
        "C16" => vs.extend(oracles::c16(o)),
        "C09" => vs.extend(oracles::c09(&a, o)),
        "C13" => vs.extend(oracles::c13(&a, scn, o)),
        "C15" => vs.extend(oracles::c15(&a, scn, o)),
        "C18" => vs.extend(oracles::c18(&a, o)),
        _ => {}
    }
    if stuck && vs.is_empty() && harness_error.is_none() {
        // A run that cannot finish is a liveness failure. It is a violation for the
        // properties that own liveness (C08 blocking receives, C14 tasks, and the liveness
        // clauses of C11/C13/C15); for the others it is reported as "incomplete": they make
        // no claim about such a run (the owning property's check catches it).
        let st = oracles::stuck_info(&a, o);
        match p {
            "C08" | "C14" => {
                harness_error = Some(format!("unclassified stuck run: {}", st.text));
            }
            _ => {}
        }
    }
    for v in vs.iter_mut() {
        v.tags.extend(scn.tags.iter().cloned());
    }
    let s = &o.stats;
    let nontrivial = if scn.seq.is_some() {
        // sequential engine: non-trivial = at least 5 calls executed against the model
        complete && o.fin.seq_calls >= 5
    } else {
        complete && s.preempts_in_api >= 1 && s.contention >= 1
    };
    Verdict { violations: vs, nontrivial, harness_error }
}
