//! Property table: which families a property's check samples, which oracles it evaluates,
//! and how large the quick / thorough tiers are.

use crate::analysis::Analysis;
use crate::exec::RunOutcome;
use crate::families::{self, CoreOpts};
use crate::oracles::{self, Violation};
use crate::prng::Rng;
use crate::scenario::Scenario;
use crate::sched::{End, SchedCfg};

pub const ALL: [&str; 18] = [
    "C01", "C02", "C03", "C04", "C05", "C06", "C07", "C08", "C09", "C10", "C11", "C12", "C13", "C14", "C15", "C16", "C17", "C18",
];

pub fn prop_static(p: &str) -> Option<&'static str> {
    ALL.iter().find(|x| **x == p).copied()
}

pub fn salt(p: &str) -> u64 {
    p.bytes().fold(0xABCD_u64, |a, b| a.wrapping_mul(131).wrapping_add(b as u64))
}

/// (runs, wall-clock budget in seconds). Run counts are fixed so that a given seed always
/// explores the same cases; the budget is only a safety cap for slow machines.
pub fn tier_size(p: &str, thorough: bool) -> (u64, u64) {
    // approximate cost classes measured on the 16-core sandbox (runs per second)
    let per_s: u64 = match p {
        "C04" => 12_000,
        "C03" | "C06" => 12_000,
        "C01" | "C02" => 16_000,
        "C15" => 14_000,
        "C18" => 12_000,
        "C09" => 18_000,
        "C13" => 22_000,
        "C05" => 18_000,
        "C10" => 14_000,
        "C11" => 16_000,
        "C12" => 14_000,
        "C16" => 5_000,
        "C17" => 7_000,
        _ => 20_000,
    };
    if thorough {
        (per_s * 1000, 1800)
    } else {
        (per_s * 50, 90)
    }
}

/// Generate the scenario of run `seed` for property `p`.
pub fn generate(p: &str, seed: u64, index: u64) -> (Scenario, SchedCfg) {
    if p == "C09" {
        // the first run indices are an exhaustive sweep of all call sequences of depth 4
        // (and, in the thorough tier, depth 5) over a small alphabet; the rest is random
        let d4 = families::sweep_total(4);
        let d5 = families::sweep_total(5);
        let q = tier_size("C09", false).0;
        if index < d4 {
            return families::seq_sweep(index, 4);
        } else if index >= q && index < q + d5 {
            // only reached by the thorough tier (run indices beyond the quick tier's range)
            return families::seq_sweep(index - q, 5);
        }
    }
    let mut r = Rng::new(seed ^ 0xFA31);
    let sub = r.next();
    let w = r.below(100);
    match p {
        "C01" | "C02" => {
            if w < 30 {
                families::core(sub, "core", &CoreOpts::default())
            } else if w < 50 {
                // streams created / removed and handles churned in the middle of traffic
                match w % 4 {
                    0 => families::addstream(sub, false),
                    1 => families::addstream(sub, true),
                    2 => families::removal(sub),
                    _ => families::churn(sub),
                }
            } else if w < 78 {
                families::core(
                    sub,
                    "shared",
                    &CoreOpts { force_shared: true, max_streams: 1, small_cap: true, zero_spins: true, max_producers: 2, ..Default::default() },
                )
            } else {
                families::core(sub, "fut", &CoreOpts { fut: true, small_cap: true, ..Default::default() })
            }
        }
        "C03" => {
            if w < 32 {
                families::core(sub, "core", &CoreOpts::default())
            } else if w < 52 {
                match w % 4 {
                    0 => families::addstream(sub, false),
                    1 => families::addstream(sub, true),
                    2 => families::removal(sub),
                    _ => families::churn(sub),
                }
            } else if w < 85 {
                families::core(sub, "cap", &CoreOpts { min_values_factor: 2, ..Default::default() })
            } else {
                families::core(sub, "fut", &CoreOpts { fut: true, small_cap: true, ..Default::default() })
            }
        }
        "C04" => {
            let (mut s, c) = if w < 60 {
                families::core(sub, "slowclone", &CoreOpts { slow: true, small_cap: true, min_values_factor: 3, ..Default::default() })
            } else {
                families::core(sub, "slowclone.leavers", &CoreOpts { slow: true, small_cap: true, min_values_factor: 2, force_shared: true, leavers: true, ..Default::default() })
            };
            if r.below(3) == 0 {
                // add-on: a second queue whose payload has no drop glue (pod.rs, seed C04e)
                let cap = *r.pick(&[1u32, 1, 2, 3, 4]);
                let mode = *r.pick(&[0u32, 0, 1, 2]);
                let k = r.range(3, 8) as u32;
                let flavour = r.below(2) as u32;
                s.pod = cap | (mode << 4) | (k << 8) | (flavour << 16);
                s.tags.push("pod".into());
            }
            (s, c)
        }
        "C05" => {
            if w < 35 {
                families::seq_family(sub, "seq.ledger", None, &crate::seq::SeqOpts { len_max: 200, mpmc_second_stream: false, fut_bias: 40, churn: false, norecv: false })
            } else if w < 70 {
                families::teardown(sub)
            } else if w < 90 {
                families::core(sub, "core", &CoreOpts { small_cap: true, ..Default::default() })
            } else {
                // hazardous sub-family, generated by this check only (DESIGN.md section 6, D11)
                let (mut s, c) = families::seq_family(sub, "seq.mpmc_second_stream", Some(true), &crate::seq::SeqOpts { len_max: 60, mpmc_second_stream: true, fut_bias: 100, churn: false, norecv: false });
                s.tags.push("hazard=mpmc_second_stream".into());
                (s, c)
            }
        }
        "C06" => {
            // every state-changing operation the statement lists: sends, receives, add_stream,
            // handle clone / drop, unsubscribe
            if w < 25 {
                families::core(sub, "core", &CoreOpts::default())
            } else if w < 40 {
                families::core(sub, "shared", &CoreOpts { force_shared: true, max_streams: 1, small_cap: true, ..Default::default() })
            } else if w < 60 {
                families::core(sub, "shared.leavers", &CoreOpts { force_shared: true, small_cap: true, leavers: true, slow: true, ..Default::default() })
            } else if w < 75 {
                families::churn(sub)
            } else if w < 90 {
                families::removal(sub)
            } else {
                families::addstream(sub, w % 2 == 0)
            }
        }
        "C07" => families::disconnect(sub),
        "C09" => families::seq_family(sub, "seq", None, &crate::seq::SeqOpts { len_max: 400, mpmc_second_stream: false, fut_bias: 40, churn: false, norecv: false }),
        "C08" => families::blockrecv(sub),
        "C10" => {
            if w < 65 {
                families::addstream(sub, false)
            } else {
                // another handle of the parent stream keeps receiving during the call (this was
                // the hazardous sub-family of defect D10 until it was repaired)
                families::addstream(sub, true)
            }
        }
        "C11" => families::removal(sub),
        "C12" => families::churn(sub),
        "C16" => families::reclaim(sub, false),
        "C17" => {
            if w < 40 {
                families::seq_family(sub, "seq.teardown", None, &crate::seq::SeqOpts { len_max: 120, mpmc_second_stream: false, fut_bias: 40, churn: false, norecv: false })
            } else if w < 60 {
                families::seq_churn(sub, index >= tier_size("C17", false).0)
            } else if w < 80 {
                families::reclaim(sub, true)
            } else {
                families::core(sub, "core", &CoreOpts { small_cap: true, ..Default::default() })
            }
        }
        "C13" => {
            if w < 40 {
                families::seq_family(sub, "seq.norecv", None, &crate::seq::SeqOpts { len_max: 40, mpmc_second_stream: false, fut_bias: 50, churn: false, norecv: true })
            } else {
                families::norecv(sub)
            }
        }
        "C14" => {
            if r.below(5) == 0 {
                families::futpark_pause(sub)
            } else {
                families::futpark(sub)
            }
        }
        "C15" => {
            if w < 35 {
                families::seq_family(sub, "seq.fut", Some(true), &crate::seq::SeqOpts { len_max: 300, mpmc_second_stream: false, fut_bias: 100, churn: false, norecv: false })
            } else if w < 65 {
                families::core(sub, "fut.direct", &CoreOpts { fut: true, small_cap: true, fut_direct: true, ..Default::default() })
            } else if w < 82 {
                families::core(sub, "fut.solo", &CoreOpts { fut: true, small_cap: true, solo: 2, max_consumers: 2, ..Default::default() })
            } else if w < 91 {
                // the same capacity rule as the plain queue also means: a sink that was refused
                // is accepted once there is room, a stream that was empty yields the next value
                families::futpark(sub)
            } else {
                families::futpark_pause(sub)
            }
        }
        "C18" => {
            let o = CoreOpts { solo: 1, no_notify_wait: true, max_consumers: 2, ..Default::default() };
            if w < 35 {
                families::core(sub, "core.solo", &o)
            } else if w < 55 {
                families::reclaim_solo(sub)
            } else if w < 67 {
                families::norecv_solo(sub)
            } else {
                families::core(sub, "shared.solo", &CoreOpts { force_shared: true, max_streams: 1, small_cap: true, ..o })
            }
        }
        _ => families::core(sub, "core", &CoreOpts::default()),
    }
}

/// Property-specific part of the non-triviality rule (evidence text).
pub fn nontrivial_extra(p: &str) -> &'static str {
    match p {
        "C08" => "; for C08 additionally a consumer must have entered the wait strategy (a blocking receive that found the queue empty)",
        "C14" => "; for C14 additionally at least one task must have parked (NotReady returned to the executor)",
        "C04" => "; for C04 additionally a clone or view must have been suspended in the middle (slow_clone / slow_view fired)",
        "C07" => "; for C07 additionally an end-of-stream result must have been reported while the run was still concurrent",
        _ => "",
    }
}

pub struct Verdict {
    pub violations: Vec<Violation>,
    /// the run exercised what the family aims at (see evidence `rule`)
    pub nontrivial: bool,
    /// harness problem (exit 2), never a violation
    pub harness_error: Option<String>,
}

pub fn evaluate(p: &str, scn: &Scenario, o: &RunOutcome) -> Verdict {
    let prop = prop_static(p).unwrap_or("C00");
    let complete = o.end == End::Completed;
    let a = Analysis::new(&o.recs, complete);
    let mut vs: Vec<Violation> = Vec::new();
    let mut harness_error = None;
    if !o.harness_errors.is_empty() {
        harness_error = Some(format!("harness errors: {:?}", o.harness_errors));
    }
    match o.end {
        End::StepCap => harness_error = Some("step budget exhausted".into()),
        End::ReplayDiverged => harness_error = Some(format!("replay diverged at step {:?}", o.diverged_at)),
        End::Panic => {
            let msg = o.panic_msg.clone().unwrap_or_default();
            if msg.starts_with("harness:") || msg.starts_with("verif shim:") || msg.contains("harness/src") {
                harness_error = Some(format!("harness panic: {}", msg));
            }
        }
        _ => {}
    }
    vs.extend(oracles::panic_violation(prop, &a, o));
    let stuck = matches!(o.end, End::Deadlock | End::Livelock);
    match p {
        "C01" => vs.extend(oracles::c01(&a, scn)),
        "C02" => vs.extend(oracles::c02(&a, scn)),
        "C03" => vs.extend(oracles::c03(&a, scn)),
        "C04" => vs.extend(oracles::c04(o)),
        "C05" => vs.extend(oracles::c05(o)),
        "C06" => vs.extend(oracles::c06(&a, scn)),
        "C07" => {
            vs.extend(oracles::c07(&a, scn));
            vs.extend(oracles::c07_stuck(&a, o));
        }
        "C08" => vs.extend(oracles::c08(&a, o)),
        "C14" => vs.extend(oracles::c14(&a, o)),
        "C16" => vs.extend(oracles::c16(o)),
        "C09" => vs.extend(oracles::c09(&a, o)),
        "C10" => vs.extend(oracles::c10(&a, scn)),
        "C11" => vs.extend(oracles::c11(&a, scn, o)),
        "C12" => vs.extend(oracles::c12(&a, scn)),
        "C17" => vs.extend(oracles::c17(o)),
        "C13" => vs.extend(oracles::c13(&a, scn, o)),
        "C15" => vs.extend(oracles::c15(&a, scn, o)),
        "C18" => vs.extend(oracles::c18(&a, o)),
        _ => {}
    }
    if stuck && vs.is_empty() && harness_error.is_none() {
        // A run that cannot finish is a liveness failure. It is a violation for the
        // properties that own liveness (C08 blocking receives, C14 tasks, and the liveness
        // clauses of C11/C13/C15); for the others it is reported as "incomplete": they make
        // no claim about such a run (the owning property's check catches it).
        let st = oracles::stuck_info(&a, o);
        match p {
            "C08" | "C14" => {
                harness_error = Some(format!("unclassified stuck run: {}", st.text));
            }
            _ => {}
        }
    }
    for v in vs.iter_mut() {
        v.tags.extend(scn.tags.iter().cloned());
    }
    let s = &o.stats;
    let nontrivial = if scn.seq.is_some() {
        // sequential engine: non-trivial = at least 3 calls really executed against the
        // model (generated calls that are invalid in the reached state are skipped)
        complete && o.recs.iter().filter(|r| r.phase == 0 && r.op != crate::hist::OpK::Create).count() >= 3
    } else {
        // contention event seen by the runtime: failed CAS or contended lock, or one of the
        // rare-branch probes Full / Empty / pin conflict / pin re-check failed / task parked
        let pr = &s.probes;
        let contended = s.contention >= 1 || pr[1] + pr[2] + pr[9] + pr[10] + pr[17] + pr[18] + pr[19] >= 1;
        complete && s.preempts_in_api >= 1 && contended
    };
    Verdict { violations: vs, nontrivial, harness_error }
}
