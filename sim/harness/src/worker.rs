//! Worker process: runs the indices `i ≡ w (mod W)` of a batch and reports a summary
//! (JSON on stdout), the per-run digests (binary file) and every violation it saw.

use crate::exec::{self, RunOutcome, RunSource};
use crate::hist;
use crate::json::J;
use crate::oracles::Violation;
use crate::prng;
use crate::props;
use crate::scenario::{self, Scenario};
use crate::sched::{self, SchedCfg};
use multiqueue2_verif_rt as rt;
use std::collections::BTreeMap;
use std::io::Write;
use std::sync::atomic::{AtomicBool, AtomicU64, Ordering};
use std::time::Instant;

// A run that never comes back (an endless loop in code the simulator does not control, e.g.
// a destructor walking 2^64 positions on a broken tree) would hang the worker and with it
// the whole check. A watchdog thread notices that no run started or finished for a long
// time, reports the run index on stdout and ends the process.
static BEAT: AtomicU64 = AtomicU64::new(0);
static CUR_INDEX: AtomicU64 = AtomicU64::new(u64::MAX);
static DONE: AtomicBool = AtomicBool::new(false);

/// On a fatal signal (a broken tree may really corrupt memory) say which run was active
/// before the process dies, so that the parent can report it instead of a bare crash.
extern "C" fn fatal_signal(_sig: i32) {
    let idx = CUR_INDEX.load(Ordering::SeqCst);
    let mut buf = [0u8; 48];
    let prefix = b"\n{\"crashed_index\":";
    let mut n = 0;
    for &c in prefix {
        buf[n] = c;
        n += 1;
    }
    let mut digits = [0u8; 20];
    let mut k = 0;
    let mut v = idx;
    if v == 0 {
        digits[0] = b'0';
        k = 1;
    }
    while v > 0 {
        digits[k] = b'0' + (v % 10) as u8;
        v /= 10;
        k += 1;
    }
    while k > 0 {
        k -= 1;
        buf[n] = digits[k];
        n += 1;
    }
    buf[n] = b'}';
    buf[n + 1] = b'\n';
    unsafe {
        libc::write(1, buf.as_ptr() as *const libc::c_void, n + 2);
        libc::_exit(5);
    }
}

fn install_signal_handlers() {
    unsafe {
        for s in [libc::SIGSEGV, libc::SIGBUS, libc::SIGABRT, libc::SIGILL, libc::SIGFPE] {
            libc::signal(s, fatal_signal as usize);
        }
    }
}

fn process_cpu_seconds() -> f64 {
    let mut ts = libc::timespec { tv_sec: 0, tv_nsec: 0 };
    unsafe {
        libc::clock_gettime(libc::CLOCK_PROCESS_CPUTIME_ID, &mut ts);
    }
    ts.tv_sec as f64 + ts.tv_nsec as f64 * 1e-9
}

/// A run that never comes back (the real code looping without touching a seam) is reported
/// by index. The limit is CPU time of this process since the last completed run
/// (`VERIF_WATCHDOG_S`, default 120 s; the longest legitimate run takes about 10 s), so that
/// a heavily loaded machine cannot turn a slow run into an alarm; ten times that in
/// wall-clock time catches a run that is stuck without burning CPU.
fn start_watchdog() {
    let limit: f64 = std::env::var("VERIF_WATCHDOG_S").ok().and_then(|s| s.parse().ok()).unwrap_or(120.0);
    std::thread::spawn(move || {
        let mut last = u64::MAX;
        let mut cpu_at_beat = process_cpu_seconds();
        let mut wall_at_beat = Instant::now();
        loop {
            std::thread::sleep(std::time::Duration::from_secs(1));
            if DONE.load(Ordering::SeqCst) {
                return;
            }
            let b = BEAT.load(Ordering::SeqCst);
            if b != last {
                last = b;
                cpu_at_beat = process_cpu_seconds();
                wall_at_beat = Instant::now();
                continue;
            }
            if process_cpu_seconds() - cpu_at_beat > limit || wall_at_beat.elapsed().as_secs_f64() > limit * 10.0 {
                println!("{{\"hung_index\":{}}}", CUR_INDEX.load(Ordering::SeqCst));
                let _ = std::io::stdout().flush();
                std::process::exit(4);
            }
        }
    });
}

pub struct WorkerCfg {
    pub prop: String,
    pub base_seed: u64,
    pub w: u64,
    pub nw: u64,
    pub n_runs: u64,
    pub budget_s: f64,
    /// explicit run indices (determinism resample) instead of the modulo shard
    pub indices: Option<Vec<u64>>,
    pub digest_file: Option<String>,
    pub max_violations: usize,
}

#[derive(Default)]
pub struct Summary {
    pub runs: u64,
    pub steps: u64,
    pub max_steps: u64,
    pub nontrivial: u64,
    pub ends: BTreeMap<String, u64>,
    pub families: BTreeMap<String, u64>,
    pub flavours: BTreeMap<String, u64>,
    pub knobs: BTreeMap<String, u64>,
    /// (run index, end, family) of runs that did not complete and were not violations of this property
    pub incomplete: Vec<(u64, String, String)>,
    pub caps: BTreeMap<String, u64>,
    pub waits: BTreeMap<String, u64>,
    pub strategies: BTreeMap<String, u64>,
    pub faults: Vec<u64>,
    pub probes: Vec<u64>,
    pub sim_time_ms: u64,
    pub violations: Vec<J>,
    pub n_violations: u64,
    pub harness_errors: Vec<String>,
    pub samples: Vec<J>,
    pub first_index: u64,
    pub last_index: u64,
    pub tasks_max: u64,
    pub payloads: u64,
    pub clones: u64,
    pub views: u64,
    pub preempts_in_api: u64,
    pub contention: u64,
    pub stalls_planned: u64,
    pub known: BTreeMap<String, u64>,
}

pub fn violation_json(v: &Violation) -> J {
    J::obj()
        .set("property", J::str(v.prop))
        .set("class", J::Str(format!("{}.{}", v.prop, v.class)))
        .set("site", J::str(&v.site))
        .set("tags", J::Arr(v.tags.iter().map(|t| J::str(t)).collect()))
        .set("message", J::str(&v.msg))
}

/// A replayable description of one failing run.
pub fn failure_json(index: u64, seed: u64, scn: &Scenario, cfg: &SchedCfg, o: &RunOutcome, v: &Violation) -> J {
    violation_json(v)
        .set("index", J::UInt(index))
        .set("seed", J::UInt(seed))
        .set("end", J::str(o.end.name()))
        .set("steps", J::UInt(o.stats.steps))
        .set("scenario", scn.to_json())
        .set("sched", scenario::sched_json(cfg))
        .set("schedule", J::Str(sched::rle(&o.record)))
        .set("history_digest", J::Str(format!("{:016x}", hist::digest(&o.recs))))
        .set("history", J::Arr(o.recs.iter().rev().take(120).rev().map(|r| J::Str(hist::fmt_rec(r))).collect()))
        .set("minimised", J::Bool(false))
}

pub fn sample_json(index: u64, scn: &Scenario, cfg: &SchedCfg, o: &RunOutcome) -> J {
    J::obj()
        .set("index", J::UInt(index))
        .set("end", J::str(o.end.name()))
        .set("scenario", scn.to_json())
        .set("strategy", J::Str(cfg.strategy.name()))
        .set("schedule_first_200", J::Str(sched::rle(&o.record[..o.record.len().min(200)])))
        .set("steps", J::UInt(o.stats.steps))
        .set("history", J::Arr(o.recs.iter().take(60).map(|r| J::Str(hist::fmt_rec(r))).collect()))
}

struct Src<'a> {
    cfg: &'a WorkerCfg,
    pos: u64,
    cur: Option<(u64, u64, Scenario, SchedCfg)>,
    sum: Summary,
    start: Instant,
    digests: Vec<(u64, u64, u64)>,
    salt: u64,
    findings: Vec<crate::findings::Finding>,
}

impl<'a> Src<'a> {
    fn next_index(&mut self) -> Option<u64> {
        match &self.cfg.indices {
            Some(v) => {
                let i = v.get(self.pos as usize).copied();
                self.pos += 1;
                i
            }
            None => {
                let i = self.cfg.w + self.pos * self.cfg.nw;
                self.pos += 1;
                if i < self.cfg.n_runs {
                    Some(i)
                } else {
                    None
                }
            }
        }
    }
}

fn bump(m: &mut BTreeMap<String, u64>, k: String) {
    *m.entry(k).or_default() += 1;
}

impl<'a> RunSource for Src<'a> {
    fn next(&mut self) -> Option<(Scenario, SchedCfg)> {
        if self.sum.n_violations as usize >= self.cfg.max_violations || self.sum.harness_errors.len() >= 3 {
            return None;
        }
        if self.cfg.indices.is_none() && self.start.elapsed().as_secs_f64() > self.cfg.budget_s {
            return None;
        }
        let index = self.next_index()?;
        BEAT.fetch_add(1, Ordering::SeqCst);
        CUR_INDEX.store(index, Ordering::SeqCst);
        let seed = prng::run_seed(self.cfg.base_seed, self.salt, index);
        let (s, c) = props::generate(&self.cfg.prop, seed, index);
        self.cur = Some((index, seed, s.clone(), c.clone()));
        Some((s, c))
    }

    fn done(&mut self, o: RunOutcome) {
        BEAT.fetch_add(1, Ordering::SeqCst);
        let (index, seed, scn, cfg) = self.cur.take().unwrap();
        let sum = &mut self.sum;
        if sum.runs == 0 {
            sum.first_index = index;
        }
        sum.last_index = index;
        sum.runs += 1;
        sum.steps += o.stats.steps;
        sum.max_steps = sum.max_steps.max(o.stats.steps);
        sum.tasks_max = sum.tasks_max.max(o.stats.tasks as u64);
        sum.payloads += o.stats.payloads as u64;
        sum.clones += o.stats.clones;
        sum.views += o.stats.views;
        sum.preempts_in_api += o.stats.preempts_in_api;
        sum.contention += o.stats.contention;
        sum.stalls_planned += cfg.stalls.len() as u64;
        sum.sim_time_ms += o.stats.sim_time_ms;
        bump(&mut sum.ends, o.end.name().to_string());
        if o.end != sched::End::Completed && sum.incomplete.len() < 40 {
            sum.incomplete.push((index, o.end.name().to_string(), scn.family.clone()));
        }
        bump(&mut sum.families, scn.family.clone());
        // per-run simulator knobs (swarm style: each is on in a random subset of the runs)
        for (on, name) in [
            (scn.post_write, "post_write_points"),
            (scn.post_load, "post_load_points"),
            (scn.quarantine, "allocator_quarantine"),
            (scn.trap.is_some(), "probe_anchored_stall"),
            (scn.trap_thread.is_some(), "thread_bound_stall"),
            (scn.weak_cas_rate > 0, "weak_cas_failures"),
            (scn.slow_clone > 0, "slow_clone_view"),
            (scn.slow_drop > 0, "slow_drop"),
            (scn.spurious_poll > 0, "spurious_polls"),
            (!cfg.stalls.is_empty(), "planned_stalls"),
        ] {
            if on {
                bump(&mut sum.knobs, name.to_string());
            }
        }
        for t in &scn.tags {
            if let Some(v) = t.strip_prefix("flavour=") {
                bump(&mut sum.flavours, v.to_string());
            } else if let Some(v) = t.strip_prefix("N=") {
                bump(&mut sum.caps, v.to_string());
            } else if let Some(v) = t.strip_prefix("wait=") {
                bump(&mut sum.waits, v.to_string());
            } else if let Some(v) = t.strip_prefix("spins=") {
                bump(&mut sum.waits, format!("futures spins {}", v));
            }
        }
        bump(&mut sum.strategies, cfg.strategy.name());
        if sum.faults.is_empty() {
            sum.faults = vec![0; rt::state::N_FAULTS];
            sum.probes = vec![0; rt::state::N_PROBES];
        }
        for (i, f) in o.stats.faults.iter().enumerate() {
            sum.faults[i] += f;
        }
        for (i, p) in o.stats.probes.iter().enumerate() {
            sum.probes[i] += p;
        }
        let v = props::evaluate(&self.cfg.prop, &scn, &o);
        let hd = hist::digest(&o.recs);
        let combined = rt::state::mix(hd, o.stats.ilv ^ scn.digest());
        self.digests.push((index, combined, if v.nontrivial { 1 } else { 0 }));
        if v.nontrivial {
            sum.nontrivial += 1;
            if sum.samples.len() < 2 {
                sum.samples.push(sample_json(index, &scn, &cfg, &o));
            }
        }
        if let Some(e) = v.harness_error {
            sum.harness_errors.push(format!("run {} (seed {}): {}", index, seed, e));
        }
        // a run is a known finding only if *every* violation it shows is listed; anything
        // else is reported (the first unlisted violation of the run)
        let unlisted = v.violations.iter().find(|x| crate::findings::find(x, &self.findings).is_none());
        match unlisted {
            Some(first) => {
                sum.n_violations += 1;
                if sum.violations.len() < self.cfg.max_violations {
                    sum.violations.push(failure_json(index, seed, &scn, &cfg, &o, first));
                }
            }
            None => {
                let mut seen: Vec<String> = Vec::new();
                for x in &v.violations {
                    if let Some(f) = crate::findings::find(x, &self.findings) {
                        let l = crate::findings::label(f);
                        if !seen.contains(&l) {
                            seen.push(l);
                        }
                    }
                }
                for l in seen {
                    *sum.known.entry(l).or_default() += 1;
                }
            }
        }
    }
}

fn map_json(m: &BTreeMap<String, u64>) -> J {
    J::from_map(m)
}

pub fn run_worker(cfg: &WorkerCfg) -> J {
    let mut src = Src {
        cfg,
        pos: 0,
        cur: None,
        sum: Summary::default(),
        start: Instant::now(),
        digests: Vec::new(),
        salt: props::salt(&cfg.prop),
        findings: crate::findings::load(),
    };
    start_watchdog();
    install_signal_handlers();
    exec::run_batch(&mut src);
    DONE.store(true, Ordering::SeqCst);
    let wall = src.start.elapsed().as_secs_f64();
    if let Some(path) = &cfg.digest_file {
        if let Ok(mut f) = std::fs::File::create(path) {
            let mut buf = Vec::with_capacity(src.digests.len() * 17);
            for (i, d, nt) in &src.digests {
                buf.extend_from_slice(&i.to_le_bytes());
                buf.extend_from_slice(&d.to_le_bytes());
                buf.push(*nt as u8);
            }
            let _ = f.write_all(&buf);
        }
    }
    let s = src.sum;
    J::obj()
        .set("worker", J::UInt(cfg.w))
        .set("runs", J::UInt(s.runs))
        .set("steps", J::UInt(s.steps))
        .set("max_steps", J::UInt(s.max_steps))
        .set("nontrivial", J::UInt(s.nontrivial))
        .set("ends", map_json(&s.ends))
        .set("incomplete", J::Arr(s.incomplete.iter().map(|(i, e, f)| J::Arr(vec![J::UInt(*i), J::str(e), J::str(f)])).collect()))
        .set("families", map_json(&s.families))
        .set("flavours", map_json(&s.flavours))
        .set("knobs", map_json(&s.knobs))
        .set("capacities", map_json(&s.caps))
        .set("waits", map_json(&s.waits))
        .set("strategies", map_json(&s.strategies))
        .set("faults", J::Arr(s.faults.iter().map(|x| J::UInt(*x)).collect()))
        .set("probes", J::Arr(s.probes.iter().map(|x| J::UInt(*x)).collect()))
        .set("sim_time_ms", J::UInt(s.sim_time_ms))
        .set("violations", J::Arr(s.violations))
        .set("n_violations", J::UInt(s.n_violations))
        .set("harness_errors", J::Arr(s.harness_errors.iter().map(|e| J::str(e)).collect()))
        .set("samples", J::Arr(s.samples))
        .set("first_index", J::UInt(s.first_index))
        .set("last_index", J::UInt(s.last_index))
        .set("tasks_max", J::UInt(s.tasks_max))
        .set("payloads", J::UInt(s.payloads))
        .set("clones", J::UInt(s.clones))
        .set("views", J::UInt(s.views))
        .set("preempts_in_api", J::UInt(s.preempts_in_api))
        .set("contention", J::UInt(s.contention))
        .set("stalls_planned", J::UInt(s.stalls_planned))
        .set("known", map_json(&s.known))
        .set("wall_s", J::Num(wall))
}
