//! A scenario is data: queue configuration, set-up operations executed by the main
//! simulated thread, one program per simulated thread, and the end-of-run protocol. It is
//! written out explicitly in replay files (never re-derived from the seed).

use crate::handles::{Flavour, QueueCfg, WaitK};
use crate::json::J;
use crate::sched::{SchedCfg, StallPlan, Strategy};

pub const UNLIMITED: u32 = u32::MAX;

#[derive(Clone, Copy, PartialEq, Eq, Debug)]
pub enum SendApi {
    TrySend,
    /// `Sink::start_send` inside a task; on NotReady the task parks until notified and
    /// retries (what `Sink::send` does)
    Sink,
}

#[derive(Clone, Copy, PartialEq, Eq, Debug)]
pub enum RecvApi {
    TryRecv,
    Recv,
    TryRecvView,
    RecvView,
    /// owning blocking iterator (consumes the handle)
    Iter,
    /// borrowed non-blocking iterator
    TryIter,
    IterWith,
    TryIterWith,
    /// `Stream::poll` inside a task; parks on NotReady
    Poll,
}

impl RecvApi {
    pub fn name(self) -> &'static str {
        match self {
            RecvApi::TryRecv => "try_recv",
            RecvApi::Recv => "recv",
            RecvApi::TryRecvView => "try_recv_view",
            RecvApi::RecvView => "recv_view",
            RecvApi::Iter => "iter",
            RecvApi::TryIter => "try_iter",
            RecvApi::IterWith => "iter_with",
            RecvApi::TryIterWith => "try_iter_with",
            RecvApi::Poll => "poll",
        }
    }
    pub fn parse(s: &str) -> Option<RecvApi> {
        Some(match s {
            "try_recv" => RecvApi::TryRecv,
            "recv" => RecvApi::Recv,
            "try_recv_view" => RecvApi::TryRecvView,
            "recv_view" => RecvApi::RecvView,
            "iter" => RecvApi::Iter,
            "try_iter" => RecvApi::TryIter,
            "iter_with" => RecvApi::IterWith,
            "try_iter_with" => RecvApi::TryIterWith,
            "poll" => RecvApi::Poll,
            _ => return None,
        })
    }
    pub fn is_blocking(self) -> bool {
        matches!(self, RecvApi::Recv | RecvApi::RecvView | RecvApi::Iter | RecvApi::IterWith)
    }
    pub fn is_try(self) -> bool {
        matches!(self, RecvApi::TryRecv | RecvApi::TryRecvView | RecvApi::TryIter | RecvApi::TryIterWith)
    }
}

#[derive(Clone, Copy, PartialEq, Eq, Debug)]
pub enum TryKind {
    Send,
    Recv,
    RecvView,
    /// `Stream::poll` inside a task (C15: never waits inside the call)
    Poll,
    /// `Sink::start_send` inside a task
    StartSend,
}

#[derive(Clone, PartialEq, Debug)]
pub enum Op {
    /// send `n` fresh values through sender `h`; each value is retried up to `max_retry`
    /// times (UNLIMITED = until accepted); a Disconnected result ends the op
    Produce { h: u32, n: u32, api: SendApi, max_retry: u32 },
    /// receive through `h` until `quota` values were delivered (UNLIMITED = until the end
    /// of the stream) or, for non-blocking entry points, `max_empty` consecutive
    /// Empty/None results were seen (UNLIMITED = keep trying); after the end of the
    /// stream was reported make `after_end` more calls (C07: the end is stable)
    Consume { h: u32, api: RecvApi, quota: u32, max_empty: u32, after_end: u8 },
    AddStream { h: u32, new: u32 },
    CloneRecv { h: u32, new: u32 },
    DropRecv { h: u32 },
    Unsub { h: u32 },
    IntoSingle { h: u32 },
    IntoMulti { h: u32 },
    Transform { h: u32 },
    CloneSender { h: u32, new: u32 },
    DropSender { h: u32 },
    UnsubSender { h: u32 },
    /// start thread `thread` (must be declared `spawned`), giving it these handles
    Spawn { thread: u32, give: Vec<u32> },
    Await(u8),
    Signal(u8),
    /// one try operation with every other thread frozen (C18)
    SoloTry { h: u32, kind: TryKind },
    Yield(u8),
    /// run `body` `times` times (handle ids created inside are reused every cycle, so the
    /// body must drop what it creates)
    Repeat { times: u32, body: Vec<Op> },
    /// record (cycle, attributed live bytes) for the churn oracle (C17)
    Sample,
}

#[derive(Clone, PartialEq, Debug)]
pub struct ThreadSpec {
    /// handles moved into the thread when it starts (for threads started by main)
    pub handles: Vec<u32>,
    pub prog: Vec<Op>,
    /// started by an `Op::Spawn` of another thread instead of by main
    pub spawned: bool,
}

#[derive(Clone, Copy, PartialEq, Eq, Debug)]
pub enum Teardown {
    SendersFirst,
    ReceiversFirst,
    /// interleaved in an order derived from this number
    Mixed(u32),
}

#[derive(Clone, PartialEq, Debug)]
pub struct Scenario {
    pub family: String,
    pub queue: QueueCfg,
    /// executed by main before any thread starts; handle 0 is the first sender, handle 1
    /// the first receiver (stream 0)
    pub setup: Vec<Op>,
    pub threads: Vec<ThreadSpec>,
    /// executed by main after the threads it started were launched, concurrently with them
    pub main_prog: Vec<Op>,
    /// run the quiescent probe after joining (C06)
    pub probe: bool,
    /// drain every surviving stream to the end after dropping all senders
    pub final_drain: bool,
    pub teardown: Teardown,
    pub slow_clone: u8,
    pub slow_view: u8,
    /// the payload destructor yields this many times before it takes effect
    pub slow_drop: u8,
    /// scheduling points also *after* every write of the crate (see rt `post_write`)
    pub post_write: bool,
    /// scheduling points also after every load / failed CAS (see rt `post_load`)
    pub post_load: bool,
    /// probability (per 65536) of a spurious compare_exchange_weak failure
    pub weak_cas_rate: u32,
    /// probability (per 256) that a task is polled again without having been notified
    pub spurious_poll: u8,
    /// allocation seam in quarantine mode (C16)
    pub quarantine: bool,
    /// probe-anchored stall: (probe id, fire on n-th hit, length)
    pub trap: Option<(u32, u32, u32)>,
    /// index (in `threads`) of the only thread the trap applies to; None = any task
    pub trap_thread: Option<u32>,
    pub tags: Vec<String>,
    /// sequential engine: when present, main runs this call list against the reference
    /// model instead of starting threads
    pub seq: Option<Vec<crate::seq::SeqCall>>,
    /// C04 add-on (0 = off): a second, independent queue carrying a payload WITHOUT drop
    /// glue (`pod.rs`), one producer and one consumer task next to the scenario's threads.
    /// bits 0..4 requested capacity, 4..8 receive path, 8..16 number of values, 16 flavour
    pub pod: u32,
}

impl Scenario {
    pub fn new(family: &str, queue: QueueCfg) -> Scenario {
        Scenario {
            family: family.to_string(),
            queue,
            setup: Vec::new(),
            threads: Vec::new(),
            main_prog: Vec::new(),
            probe: true,
            final_drain: true,
            teardown: Teardown::SendersFirst,
            slow_clone: 0,
            slow_view: 0,
            slow_drop: 0,
            post_write: false,
            post_load: false,
            weak_cas_rate: 0,
            spurious_poll: 0,
            quarantine: false,
            trap: None,
            trap_thread: None,
            tags: Vec::new(),
            seq: None,
            pod: 0,
        }
    }
    pub fn digest(&self) -> u64 {
        let s = self.to_json().to_string();
        let mut d: u64 = 0xcbf2_9ce4_8422_2325;
        for b in s.bytes() {
            d ^= b as u64;
            d = d.wrapping_mul(0x0000_0100_0000_01B3);
        }
        d
    }
}

// ------------------------------------------------------------------------------ JSON

fn n(v: u32) -> J {
    if v == UNLIMITED {
        J::str("unlimited")
    } else {
        J::UInt(v as u64)
    }
}
fn pn(j: &J) -> Result<u32, String> {
    match j {
        J::Str(s) if s == "unlimited" => Ok(UNLIMITED),
        other => other.as_u64().map(|v| v as u32).ok_or_else(|| "expected number".to_string()),
    }
}

impl Op {
    pub fn to_json(&self) -> J {
        let a = |v: Vec<J>| J::Arr(v);
        match self {
            Op::Produce { h, n: cnt, api, max_retry } => a(vec![
                J::str("produce"),
                J::UInt(*h as u64),
                J::UInt(*cnt as u64),
                J::str(match api {
                    SendApi::TrySend => "try_send",
                    SendApi::Sink => "sink",
                }),
                n(*max_retry),
            ]),
            Op::Consume { h, api, quota, max_empty, after_end } => a(vec![
                J::str("consume"),
                J::UInt(*h as u64),
                J::str(api.name()),
                n(*quota),
                n(*max_empty),
                J::UInt(*after_end as u64),
            ]),
            Op::AddStream { h, new } => a(vec![J::str("add_stream"), J::UInt(*h as u64), J::UInt(*new as u64)]),
            Op::CloneRecv { h, new } => a(vec![J::str("clone_recv"), J::UInt(*h as u64), J::UInt(*new as u64)]),
            Op::DropRecv { h } => a(vec![J::str("drop_recv"), J::UInt(*h as u64)]),
            Op::Unsub { h } => a(vec![J::str("unsubscribe"), J::UInt(*h as u64)]),
            Op::IntoSingle { h } => a(vec![J::str("into_single"), J::UInt(*h as u64)]),
            Op::IntoMulti { h } => a(vec![J::str("into_multi"), J::UInt(*h as u64)]),
            Op::Transform { h } => a(vec![J::str("transform"), J::UInt(*h as u64)]),
            Op::CloneSender { h, new } => a(vec![J::str("clone_sender"), J::UInt(*h as u64), J::UInt(*new as u64)]),
            Op::DropSender { h } => a(vec![J::str("drop_sender"), J::UInt(*h as u64)]),
            Op::UnsubSender { h } => a(vec![J::str("unsub_sender"), J::UInt(*h as u64)]),
            Op::Spawn { thread, give } => a(vec![
                J::str("spawn"),
                J::UInt(*thread as u64),
                J::Arr(give.iter().map(|g| J::UInt(*g as u64)).collect()),
            ]),
            Op::Await(l) => a(vec![J::str("await"), J::UInt(*l as u64)]),
            Op::Signal(l) => a(vec![J::str("signal"), J::UInt(*l as u64)]),
            Op::SoloTry { h, kind } => a(vec![
                J::str("solo_try"),
                J::UInt(*h as u64),
                J::str(match kind {
                    TryKind::Send => "send",
                    TryKind::Recv => "recv",
                    TryKind::RecvView => "recv_view",
                    TryKind::Poll => "poll",
                    TryKind::StartSend => "start_send",
                }),
            ]),
            Op::Yield(k) => a(vec![J::str("yield"), J::UInt(*k as u64)]),
            Op::Repeat { times, body } => a(vec![J::str("repeat"), J::UInt(*times as u64), J::Arr(body.iter().map(|o| o.to_json()).collect())]),
            Op::Sample => a(vec![J::str("sample")]),
        }
    }

    pub fn from_json(j: &J) -> Result<Op, String> {
        let a = j.as_arr().ok_or("op must be an array")?;
        let name = a.first().and_then(|x| x.as_str()).ok_or("op name")?;
        let u = |i: usize| -> Result<u32, String> { a.get(i).ok_or_else(|| "missing op field".to_string()).and_then(pn) };
        Ok(match name {
            "produce" => Op::Produce {
                h: u(1)?,
                n: u(2)?,
                api: match a.get(3).and_then(|x| x.as_str()) {
                    Some("try_send") => SendApi::TrySend,
                    Some("sink") => SendApi::Sink,
                    _ => return Err("send api".into()),
                },
                max_retry: u(4)?,
            },
            "consume" => Op::Consume {
                h: u(1)?,
                api: a.get(2).and_then(|x| x.as_str()).and_then(RecvApi::parse).ok_or("recv api")?,
                quota: u(3)?,
                max_empty: u(4)?,
                after_end: u(5)? as u8,
            },
            "add_stream" => Op::AddStream { h: u(1)?, new: u(2)? },
            "clone_recv" => Op::CloneRecv { h: u(1)?, new: u(2)? },
            "drop_recv" => Op::DropRecv { h: u(1)? },
            "unsubscribe" => Op::Unsub { h: u(1)? },
            "into_single" => Op::IntoSingle { h: u(1)? },
            "into_multi" => Op::IntoMulti { h: u(1)? },
            "transform" => Op::Transform { h: u(1)? },
            "clone_sender" => Op::CloneSender { h: u(1)?, new: u(2)? },
            "drop_sender" => Op::DropSender { h: u(1)? },
            "unsub_sender" => Op::UnsubSender { h: u(1)? },
            "spawn" => Op::Spawn {
                thread: u(1)?,
                give: a
                    .get(2)
                    .and_then(|x| x.as_arr())
                    .ok_or("spawn give")?
                    .iter()
                    .map(|x| x.as_u64().map(|v| v as u32).ok_or("give".to_string()))
                    .collect::<Result<Vec<_>, _>>()?,
            },
            "await" => Op::Await(u(1)? as u8),
            "signal" => Op::Signal(u(1)? as u8),
            "solo_try" => Op::SoloTry {
                h: u(1)?,
                kind: match a.get(2).and_then(|x| x.as_str()) {
                    Some("send") => TryKind::Send,
                    Some("recv") => TryKind::Recv,
                    Some("recv_view") => TryKind::RecvView,
                    Some("poll") => TryKind::Poll,
                    Some("start_send") => TryKind::StartSend,
                    _ => return Err("try kind".into()),
                },
            },
            "yield" => Op::Yield(u(1)? as u8),
            "repeat" => Op::Repeat {
                times: u(1)?,
                body: a.get(2).and_then(|x| x.as_arr()).ok_or("repeat body")?.iter().map(Op::from_json).collect::<Result<Vec<_>, _>>()?,
            },
            "sample" => Op::Sample,
            other => return Err(format!("unknown op {}", other)),
        })
    }
}

fn ops_json(v: &[Op]) -> J {
    J::Arr(v.iter().map(|o| o.to_json()).collect())
}
fn ops_from(j: Option<&J>) -> Result<Vec<Op>, String> {
    j.and_then(|x| x.as_arr())
        .ok_or("ops array")?
        .iter()
        .map(Op::from_json)
        .collect()
}

pub fn wait_json(w: &WaitK) -> J {
    match w {
        WaitK::Busy => J::str("BusyWait"),
        WaitK::Yield(a, b) => J::Str(format!("YieldingWait({},{})", a, b)),
        WaitK::Block(a, b) => J::Str(format!("BlockingWait({},{})", a, b)),
    }
}
fn wait_from(s: &str) -> Result<WaitK, String> {
    if s == "BusyWait" {
        return Ok(WaitK::Busy);
    }
    let parse2 = |r: &str| -> Result<(u32, u32), String> {
        let r = r.trim_end_matches(')');
        let mut it = r.split(',');
        let a = it.next().ok_or("spins")?.parse().map_err(|_| "spins")?;
        let b = it.next().ok_or("spins")?.parse().map_err(|_| "spins")?;
        Ok((a, b))
    };
    if let Some(r) = s.strip_prefix("YieldingWait(") {
        let (a, b) = parse2(r)?;
        return Ok(WaitK::Yield(a, b));
    }
    if let Some(r) = s.strip_prefix("BlockingWait(") {
        let (a, b) = parse2(r)?;
        return Ok(WaitK::Block(a, b));
    }
    Err(format!("bad wait {}", s))
}

impl Scenario {
    pub fn to_json(&self) -> J {
        let q = J::obj()
            .set(
                "flavour",
                J::str(match self.queue.flavour {
                    Flavour::Bcast => "broadcast",
                    Flavour::Mpmc => "mpmc",
                }),
            )
            .set("futures", J::Bool(self.queue.fut))
            .set("capacity_request", J::UInt(self.queue.cap_req))
            .set("wait", wait_json(&self.queue.wait))
            .set(
                "fut_spins",
                match self.queue.fut_spins {
                    None => J::Null,
                    Some((a, b)) => J::Arr(vec![J::UInt(a as u64), J::UInt(b as u64)]),
                },
            );
        J::obj()
            .set("family", J::str(&self.family))
            .set("queue", q)
            .set("setup", ops_json(&self.setup))
            .set(
                "threads",
                J::Arr(
                    self.threads
                        .iter()
                        .map(|t| {
                            J::obj()
                                .set("handles", J::Arr(t.handles.iter().map(|h| J::UInt(*h as u64)).collect()))
                                .set("spawned", J::Bool(t.spawned))
                                .set("prog", ops_json(&t.prog))
                        })
                        .collect(),
                ),
            )
            .set("main_prog", ops_json(&self.main_prog))
            .set("probe", J::Bool(self.probe))
            .set("final_drain", J::Bool(self.final_drain))
            .set(
                "teardown",
                match self.teardown {
                    Teardown::SendersFirst => J::str("senders_first"),
                    Teardown::ReceiversFirst => J::str("receivers_first"),
                    Teardown::Mixed(k) => J::UInt(k as u64),
                },
            )
            .set("slow_clone", J::UInt(self.slow_clone as u64))
            .set("slow_view", J::UInt(self.slow_view as u64))
            .set("slow_drop", J::UInt(self.slow_drop as u64))
            .set("post_write", J::Bool(self.post_write))
            .set("post_load", J::Bool(self.post_load))
            .set("weak_cas_rate", J::UInt(self.weak_cas_rate as u64))
            .set("spurious_poll", J::UInt(self.spurious_poll as u64))
            .set("quarantine", J::Bool(self.quarantine))
            .set(
                "trap",
                match self.trap {
                    None => J::Null,
                    Some((p, nth, len)) => J::Arr(vec![J::UInt(p as u64), J::UInt(nth as u64), J::UInt(len as u64)]),
                },
            )
            .set("trap_thread", match self.trap_thread { None => J::Null, Some(t) => J::UInt(t as u64) })
            .set("pod", J::UInt(self.pod as u64))
            .set("tags", J::Arr(self.tags.iter().map(|t| J::str(t)).collect()))
            .set(
                "seq",
                match &self.seq {
                    None => J::Null,
                    Some(c) => J::Arr(c.iter().map(|x| x.to_json()).collect()),
                },
            )
    }

    pub fn from_json(j: &J) -> Result<Scenario, String> {
        let q = j.get("queue").ok_or("queue")?;
        let queue = QueueCfg {
            flavour: match q.s("flavour") {
                "broadcast" => Flavour::Bcast,
                "mpmc" => Flavour::Mpmc,
                _ => return Err("flavour".into()),
            },
            fut: q.get("futures").and_then(|x| x.as_bool()).unwrap_or(false),
            cap_req: q.u("capacity_request"),
            wait: wait_from(q.s("wait"))?,
            fut_spins: match q.get("fut_spins") {
                Some(J::Arr(a)) if a.len() == 2 => Some((a[0].as_u64().unwrap_or(0) as u32, a[1].as_u64().unwrap_or(0) as u32)),
                _ => None,
            },
        };
        let mut threads = Vec::new();
        for t in j.get("threads").and_then(|x| x.as_arr()).ok_or("threads")? {
            threads.push(ThreadSpec {
                handles: t
                    .get("handles")
                    .and_then(|x| x.as_arr())
                    .ok_or("handles")?
                    .iter()
                    .map(|x| x.as_u64().unwrap_or(0) as u32)
                    .collect(),
                spawned: t.get("spawned").and_then(|x| x.as_bool()).unwrap_or(false),
                prog: ops_from(t.get("prog"))?,
            });
        }
        Ok(Scenario {
            family: j.s("family").to_string(),
            queue,
            setup: ops_from(j.get("setup"))?,
            threads,
            main_prog: ops_from(j.get("main_prog"))?,
            probe: j.get("probe").and_then(|x| x.as_bool()).unwrap_or(true),
            final_drain: j.get("final_drain").and_then(|x| x.as_bool()).unwrap_or(true),
            teardown: match j.get("teardown") {
                Some(J::Str(s)) if s == "receivers_first" => Teardown::ReceiversFirst,
                Some(J::Str(_)) => Teardown::SendersFirst,
                Some(other) => Teardown::Mixed(other.as_u64().unwrap_or(0) as u32),
                None => Teardown::SendersFirst,
            },
            slow_clone: j.u("slow_clone") as u8,
            slow_view: j.u("slow_view") as u8,
            slow_drop: j.u("slow_drop") as u8,
            post_write: j.get("post_write").and_then(|x| x.as_bool()).unwrap_or(false),
            post_load: j.get("post_load").and_then(|x| x.as_bool()).unwrap_or(false),
            weak_cas_rate: j.u("weak_cas_rate") as u32,
            spurious_poll: j.u("spurious_poll") as u8,
            quarantine: j.get("quarantine").and_then(|x| x.as_bool()).unwrap_or(false),
            trap: match j.get("trap") {
                Some(J::Arr(a)) if a.len() == 3 => Some((
                    a[0].as_u64().unwrap_or(0) as u32,
                    a[1].as_u64().unwrap_or(0) as u32,
                    a[2].as_u64().unwrap_or(0) as u32,
                )),
                _ => None,
            },
            trap_thread: j.get("trap_thread").and_then(|x| x.as_u64()).map(|x| x as u32),
            pod: j.get("pod").and_then(|x| x.as_u64()).unwrap_or(0) as u32,
            tags: j
                .get("tags")
                .and_then(|x| x.as_arr())
                .map(|a| a.iter().filter_map(|x| x.as_str().map(|s| s.to_string())).collect())
                .unwrap_or_default(),
            seq: match j.get("seq") {
                Some(J::Arr(a)) => Some(a.iter().map(crate::seq::SeqCall::from_json).collect::<Result<Vec<_>, _>>()?),
                _ => None,
            },
        })
    }
}

pub fn sched_json(c: &SchedCfg) -> J {
    J::obj()
        .set("seed", J::UInt(c.seed))
        .set("strategy", J::Str(c.strategy.name()))
        .set(
            "stalls",
            J::Arr(
                c.stalls
                    .iter()
                    .map(|s| J::Arr(vec![J::UInt(s.at_step), J::UInt(s.len as u64), J::Bool(s.prefer_in_api)]))
                    .collect(),
            ),
        )
        .set("max_steps", J::UInt(c.max_steps))
        .set("livelock_window", J::UInt(c.livelock_window))
}

pub fn sched_from(j: &J) -> Result<SchedCfg, String> {
    let mut c = SchedCfg::new(j.u("seed"), Strategy::parse(j.s("strategy")).ok_or("strategy")?);
    for s in j.get("stalls").and_then(|x| x.as_arr()).ok_or("stalls")? {
        let a = s.as_arr().ok_or("stall")?;
        c.stalls.push(StallPlan {
            at_step: a[0].as_u64().unwrap_or(0),
            len: a[1].as_u64().unwrap_or(0) as u32,
            prefer_in_api: a[2].as_bool().unwrap_or(false),
        });
    }
    c.max_steps = j.u("max_steps");
    c.livelock_window = j.u("livelock_window");
    Ok(c)
}
