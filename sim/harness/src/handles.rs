//! Uniform wrapper over the twelve public handle types, instantiated with the checked
//! payload `P`. Every method here is a thin dispatch onto the real public API.

use crate::payload::{self, P};
use futures::{Async, AsyncSink, Poll, Sink, StartSend, Stream};
use multiqueue2::wait::{BlockingWait, BusyWait, YieldingWait};
use multiqueue2::*;
use std::sync::mpsc::{RecvError, SendError, TryRecvError, TrySendError};

pub type ViewFn = Box<dyn FnMut(&P) -> u64 + Send>;

pub fn view_fn() -> ViewFn {
    Box::new(|p: &P| payload::view(p))
}

pub enum HK {
    BS(BroadcastSender<P>),
    BR(BroadcastReceiver<P>),
    BU(BroadcastUniReceiver<P>),
    BFS(BroadcastFutSender<P>),
    BFR(BroadcastFutReceiver<P>),
    BFU(BroadcastFutUniReceiver<u64, ViewFn, P>),
    MS(MPMCSender<P>),
    MR(MPMCReceiver<P>),
    MU(MPMCUniReceiver<P>),
    MFS(MPMCFutSender<P>),
    MFR(MPMCFutReceiver<P>),
    MFU(MPMCFutUniReceiver<u64, ViewFn, P>),
}

pub struct Handle {
    pub id: u32,
    /// stream id for receivers, NO_STREAM for senders
    pub stream: u32,
    /// next sequence number for values sent through this sender handle
    pub seq: u32,
    pub k: HK,
}

#[derive(Clone, Copy, PartialEq, Eq, Debug)]
pub enum Flavour {
    Bcast,
    Mpmc,
}

#[derive(Clone, Copy, PartialEq, Eq, Debug)]
pub enum WaitK {
    Busy,
    Yield(u32, u32),
    Block(u32, u32),
}

#[derive(Clone, Debug, PartialEq)]
pub struct QueueCfg {
    pub flavour: Flavour,
    pub fut: bool,
    pub cap_req: u64,
    /// plain queues only
    pub wait: WaitK,
    /// futures queues: None = the default constructor (50/50 spins)
    pub fut_spins: Option<(u32, u32)>,
}

impl QueueCfg {
    pub fn capacity(&self) -> u64 {
        if self.cap_req == 0 {
            1
        } else {
            self.cap_req.next_power_of_two()
        }
    }
    pub fn create(&self) -> (HK, HK) {
        match (self.flavour, self.fut) {
            (Flavour::Bcast, false) => {
                let (s, r) = match self.wait {
                    WaitK::Busy => broadcast_queue_with(self.cap_req, BusyWait::new()),
                    WaitK::Yield(a, b) => broadcast_queue_with(self.cap_req, YieldingWait::with_spins(a as usize, b as usize)),
                    WaitK::Block(a, b) => broadcast_queue_with(self.cap_req, BlockingWait::with_spins(a as usize, b as usize)),
                };
                (HK::BS(s), HK::BR(r))
            }
            (Flavour::Mpmc, false) => {
                let (s, r) = match self.wait {
                    WaitK::Busy => mpmc_queue_with(self.cap_req, BusyWait::new()),
                    WaitK::Yield(a, b) => mpmc_queue_with(self.cap_req, YieldingWait::with_spins(a as usize, b as usize)),
                    WaitK::Block(a, b) => mpmc_queue_with(self.cap_req, BlockingWait::with_spins(a as usize, b as usize)),
                };
                (HK::MS(s), HK::MR(r))
            }
            (Flavour::Bcast, true) => {
                let (s, r) = match self.fut_spins {
                    None => broadcast_fut_queue(self.cap_req),
                    Some((a, b)) => broadcast_fut_queue_with(self.cap_req, a as usize, b as usize),
                };
                (HK::BFS(s), HK::BFR(r))
            }
            (Flavour::Mpmc, true) => {
                // the crate offers no spin-count constructor for the mpmc futures queue
                let (s, r) = mpmc_fut_queue(self.cap_req);
                (HK::MFS(s), HK::MFR(r))
            }
        }
    }
}

fn take(p: P) -> u64 {
    p.observe("received value");
    p.id
}

impl HK {
    pub fn kind(&self) -> &'static str {
        match self {
            HK::BS(_) => "BroadcastSender",
            HK::BR(_) => "BroadcastReceiver",
            HK::BU(_) => "BroadcastUniReceiver",
            HK::BFS(_) => "BroadcastFutSender",
            HK::BFR(_) => "BroadcastFutReceiver",
            HK::BFU(_) => "BroadcastFutUniReceiver",
            HK::MS(_) => "MPMCSender",
            HK::MR(_) => "MPMCReceiver",
            HK::MU(_) => "MPMCUniReceiver",
            HK::MFS(_) => "MPMCFutSender",
            HK::MFR(_) => "MPMCFutReceiver",
            HK::MFU(_) => "MPMCFutUniReceiver",
        }
    }
    pub fn is_sender(&self) -> bool {
        matches!(self, HK::BS(_) | HK::BFS(_) | HK::MS(_) | HK::MFS(_))
    }
    pub fn is_fut(&self) -> bool {
        matches!(self, HK::BFS(_) | HK::BFR(_) | HK::BFU(_) | HK::MFS(_) | HK::MFR(_) | HK::MFU(_))
    }
    pub fn is_uni(&self) -> bool {
        matches!(self, HK::BU(_) | HK::MU(_) | HK::BFU(_) | HK::MFU(_))
    }
    pub fn is_plain_uni(&self) -> bool {
        matches!(self, HK::BU(_) | HK::MU(_))
    }
    pub fn is_bcast(&self) -> bool {
        matches!(self, HK::BS(_) | HK::BR(_) | HK::BU(_) | HK::BFS(_) | HK::BFR(_) | HK::BFU(_))
    }
    pub fn can_clone_recv(&self) -> bool {
        matches!(self, HK::BR(_) | HK::MR(_) | HK::BFR(_) | HK::MFR(_))
    }
    pub fn can_add_stream(&self) -> bool {
        matches!(self, HK::BR(_) | HK::BFR(_) | HK::BFU(_) | HK::MFU(_))
    }

    pub fn try_send(&self, p: P) -> Result<(), TrySendError<P>> {
        match self {
            HK::BS(s) => s.try_send(p),
            HK::BFS(s) => s.try_send(p),
            HK::MS(s) => s.try_send(p),
            HK::MFS(s) => s.try_send(p),
            _ => panic!("harness: try_send on {}", self.kind()),
        }
    }

    pub fn start_send(&mut self, p: P) -> StartSend<P, SendError<P>> {
        match self {
            HK::BFS(s) => s.start_send(p),
            HK::MFS(s) => s.start_send(p),
            _ => panic!("harness: start_send on {}", self.kind()),
        }
    }

    pub fn poll_complete(&mut self) -> Poll<(), SendError<P>> {
        match self {
            HK::BFS(s) => s.poll_complete(),
            HK::MFS(s) => s.poll_complete(),
            _ => panic!("harness: poll_complete on {}", self.kind()),
        }
    }

    pub fn try_recv(&mut self) -> Result<u64, TryRecvError> {
        match self {
            HK::BR(r) => r.try_recv().map(take),
            HK::BU(r) => r.try_recv().map(take),
            HK::MR(r) => r.try_recv().map(take),
            HK::MU(r) => r.try_recv().map(take),
            HK::BFR(r) => r.try_recv().map(take),
            HK::MFR(r) => r.try_recv().map(take),
            HK::BFU(r) => r.try_recv(),
            HK::MFU(r) => r.try_recv(),
            _ => panic!("harness: try_recv on {}", self.kind()),
        }
    }

    pub fn recv(&mut self) -> Result<u64, RecvError> {
        match self {
            HK::BR(r) => r.recv().map(take),
            HK::BU(r) => r.recv().map(take),
            HK::MR(r) => r.recv().map(take),
            HK::MU(r) => r.recv().map(take),
            HK::BFR(r) => r.recv().map(take),
            HK::MFR(r) => r.recv().map(take),
            HK::BFU(r) => r.recv(),
            HK::MFU(r) => r.recv(),
            _ => panic!("harness: recv on {}", self.kind()),
        }
    }

    pub fn try_recv_view(&mut self) -> Result<u64, TryRecvError> {
        match self {
            HK::BU(r) => r.try_recv_view(payload::view).map_err(|e| e.1),
            HK::MU(r) => r.try_recv_view(payload::view).map_err(|e| e.1),
            _ => panic!("harness: try_recv_view on {}", self.kind()),
        }
    }

    pub fn recv_view(&mut self) -> Result<u64, RecvError> {
        match self {
            HK::BU(r) => r.recv_view(payload::view).map_err(|e| e.1),
            HK::MU(r) => r.recv_view(payload::view).map_err(|e| e.1),
            _ => panic!("harness: recv_view on {}", self.kind()),
        }
    }

    /// One step of the non-blocking borrowed iterators (`try_iter`, `&rx` into_iter,
    /// `try_iter_with`): None on Empty as well as on Disconnected.
    pub fn try_iter_next(&mut self, with: bool) -> Option<u64> {
        match self {
            HK::BR(r) => r.try_iter().next().map(take),
            HK::MR(r) => r.try_iter().next().map(take),
            HK::BU(r) => {
                if with {
                    r.try_iter_with(payload::view).next()
                } else {
                    (&*r).into_iter().next().map(take)
                }
            }
            HK::MU(r) => {
                if with {
                    r.try_iter_with(payload::view).next()
                } else {
                    (&*r).into_iter().next().map(take)
                }
            }
            _ => panic!("harness: try_iter on {}", self.kind()),
        }
    }

    pub fn poll(&mut self) -> Poll<Option<u64>, ()> {
        match self {
            HK::BFR(r) => r.poll().map(|a| a.map(|o| o.map(take))),
            HK::MFR(r) => r.poll().map(|a| a.map(|o| o.map(take))),
            HK::BFU(r) => r.poll(),
            HK::MFU(r) => r.poll(),
            _ => panic!("harness: poll on {}", self.kind()),
        }
    }

    pub fn add_stream(&self) -> HK {
        match self {
            HK::BR(r) => HK::BR(r.add_stream()),
            HK::BFR(r) => HK::BFR(r.add_stream()),
            HK::BFU(r) => HK::BFU(r.add_stream_with(view_fn())),
            HK::MFU(r) => HK::MFU(r.add_stream_with(view_fn())),
            _ => panic!("harness: add_stream on {}", self.kind()),
        }
    }

    pub fn clone_recv(&self) -> HK {
        match self {
            HK::BR(r) => HK::BR(r.clone()),
            HK::MR(r) => HK::MR(r.clone()),
            HK::BFR(r) => HK::BFR(r.clone()),
            HK::MFR(r) => HK::MFR(r.clone()),
            _ => panic!("harness: clone on {}", self.kind()),
        }
    }

    pub fn clone_sender(&self) -> HK {
        match self {
            HK::BS(s) => HK::BS(s.clone()),
            HK::MS(s) => HK::MS(s.clone()),
            HK::BFS(s) => HK::BFS(s.clone()),
            HK::MFS(s) => HK::MFS(s.clone()),
            _ => panic!("harness: clone on {}", self.kind()),
        }
    }

    /// Ok(single) or Err(unchanged receiver)
    pub fn into_single(self) -> Result<HK, HK> {
        match self {
            HK::BR(r) => r.into_single().map(HK::BU).map_err(HK::BR),
            HK::MR(r) => r.into_single().map(HK::MU).map_err(HK::MR),
            HK::BFR(r) => r.into_single(view_fn()).map(HK::BFU).map_err(|e| HK::BFR(e.1)),
            HK::MFR(r) => r.into_single(view_fn()).map(HK::MFU).map_err(|e| HK::MFR(e.1)),
            other => panic!("harness: into_single on {}", other.kind()),
        }
    }

    pub fn into_multi(self) -> HK {
        match self {
            HK::BU(r) => HK::BR(r.into_multi()),
            HK::MU(r) => HK::MR(r.into_multi()),
            HK::BFU(r) => HK::BFR(r.into_multi()),
            HK::MFU(r) => HK::MFR(r.into_multi()),
            other => panic!("harness: into_multi on {}", other.kind()),
        }
    }

    pub fn transform(self) -> HK {
        match self {
            HK::BFU(r) => HK::BFU(r.transform_operation(view_fn())),
            HK::MFU(r) => HK::MFU(r.transform_operation(view_fn())),
            other => panic!("harness: transform_operation on {}", other.kind()),
        }
    }

    /// Some(bool) for receivers whose unsubscribe reports "was last", None otherwise.
    pub fn unsubscribe(self) -> Option<bool> {
        match self {
            HK::BS(s) => {
                s.unsubscribe();
                None
            }
            HK::MS(s) => {
                s.unsubscribe();
                None
            }
            HK::BFS(s) => {
                s.unsubscribe();
                None
            }
            HK::MFS(s) => {
                s.unsubscribe();
                None
            }
            HK::BR(r) => Some(r.unsubscribe()),
            HK::BU(r) => {
                r.unsubscribe();
                None
            }
            HK::MR(r) => Some(r.unsubscribe()),
            HK::MU(r) => Some(r.unsubscribe()),
            HK::BFR(r) => Some(r.unsubscribe()),
            HK::BFU(r) => Some(r.unsubscribe()),
            HK::MFR(r) => Some(r.unsubscribe()),
            HK::MFU(r) => Some(r.unsubscribe()),
        }
    }
}

/// Owning blocking iterators (`into_iter`, `iter_with`). The iterator types live in
/// private modules of the crate, so they are held as trait objects.
pub struct OwnedIter(Box<dyn Iterator<Item = u64>>);

impl OwnedIter {
    pub fn new(k: HK, with: bool) -> OwnedIter {
        OwnedIter(match k {
            HK::BR(r) => Box::new(r.into_iter().map(take)),
            HK::MR(r) => Box::new(r.into_iter().map(take)),
            HK::BU(r) => {
                if with {
                    Box::new(r.iter_with(payload::view))
                } else {
                    Box::new(r.into_iter().map(take))
                }
            }
            HK::MU(r) => {
                if with {
                    Box::new(r.iter_with(payload::view))
                } else {
                    Box::new(r.into_iter().map(take))
                }
            }
            other => panic!("harness: into_iter on {}", other.kind()),
        })
    }
    pub fn next(&mut self) -> Option<u64> {
        self.0.next()
    }
}

pub fn async_sink_parts(r: StartSend<P, SendError<P>>) -> Result<Option<P>, P> {
    match r {
        Ok(AsyncSink::Ready) => Ok(None),
        Ok(AsyncSink::NotReady(p)) => Ok(Some(p)),
        Err(SendError(p)) => Err(p),
    }
}

pub fn is_ready<T>(a: &Async<T>) -> bool {
    matches!(a, Async::Ready(_))
}
