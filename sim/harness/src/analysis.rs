//! Facts derived from a recorded history that several oracles share: streams and their
//! lifetimes, handle lifetimes, accepted / refused values.

use crate::hist::{OpK, Rec, Res, NONE, NO_STREAM};
use std::collections::{BTreeMap, BTreeSet};

#[derive(Clone, Debug, Default)]
pub struct StreamInfo {
    pub id: u32,
    pub parent: Option<u32>,
    /// invoke / return stamps of the call that created the stream (Create for stream 0)
    pub add_inv: u64,
    pub add_ret: u64,
    /// rec index of the creating call
    pub add_rec: usize,
    /// rec indices of successful deliveries, in invoke order
    pub deliveries: Vec<usize>,
    /// rec indices of end-of-stream results
    pub ends: Vec<usize>,
    pub handles: Vec<u32>,
    /// every handle was dropped: all drops were invoked by `gone_inv`, returned by `gone_ret`
    pub gone_inv: Option<u64>,
    pub gone_ret: Option<u64>,
    /// more than one handle existed on the stream at some time
    pub shared: bool,
    /// number of successful receives on the *parent* that returned before add was invoked
    pub lo_parent: u64,
    /// number of successful receives on the parent invoked before add returned
    pub hi_parent: u64,
}

#[derive(Clone, Debug)]
pub struct HandleInfo {
    pub id: u32,
    pub sender: bool,
    pub stream: u32,
    pub born_ret: u64,
    pub born_inv: u64,
    pub drop_inv: Option<u64>,
    pub drop_ret: Option<u64>,
}

pub struct Analysis<'a> {
    pub recs: &'a [Rec],
    pub streams: BTreeMap<u32, StreamInfo>,
    pub handles: BTreeMap<u32, HandleInfo>,
    /// value -> rec index of the accepting send
    pub accepted: BTreeMap<u64, usize>,
    /// rec indices of accepting sends ordered by return stamp
    pub accepted_by_ret: Vec<usize>,
    /// every value ever passed to a send
    pub attempted: BTreeSet<u64>,
    pub first_send_inv: u64,
    /// stamp at which the concurrent phase ended (first probe/teardown record)
    pub join_t: u64,
    pub complete: bool,
}

fn is_ok_send(r: &Rec) -> bool {
    r.op.is_send() && r.res == Res::Ok
}

impl<'a> Analysis<'a> {
    pub fn new(recs: &'a [Rec], complete: bool) -> Analysis<'a> {
        let mut streams: BTreeMap<u32, StreamInfo> = BTreeMap::new();
        let mut handles: BTreeMap<u32, HandleInfo> = BTreeMap::new();
        let mut accepted = BTreeMap::new();
        let mut accepted_by_ret = Vec::new();
        let mut attempted = BTreeSet::new();
        let mut first_send_inv = u64::MAX;
        let mut join_t = u64::MAX;

        for (i, r) in recs.iter().enumerate() {
            if r.phase >= 1 && join_t == u64::MAX {
                join_t = r.t_inv;
            }
            match r.op {
                OpK::Create => {
                    streams.insert(
                        0,
                        StreamInfo {
                            id: 0,
                            add_inv: r.t_inv,
                            add_ret: r.t_ret,
                            add_rec: i,
                            handles: vec![1],
                            ..Default::default()
                        },
                    );
                    handles.insert(0, HandleInfo { id: 0, sender: true, stream: NO_STREAM, born_inv: r.t_inv, born_ret: r.t_ret, drop_inv: None, drop_ret: None });
                    handles.insert(1, HandleInfo { id: 1, sender: false, stream: 0, born_inv: r.t_inv, born_ret: r.t_ret, drop_inv: None, drop_ret: None });
                }
                OpK::AddStream => {
                    if r.new_stream != NONE && r.t_ret != 0 {
                        streams.insert(
                            r.new_stream,
                            StreamInfo {
                                id: r.new_stream,
                                parent: Some(r.stream),
                                add_inv: r.t_inv,
                                add_ret: r.t_ret,
                                add_rec: i,
                                handles: vec![r.new_h],
                                ..Default::default()
                            },
                        );
                        handles.insert(r.new_h, HandleInfo { id: r.new_h, sender: false, stream: r.new_stream, born_inv: r.t_inv, born_ret: r.t_ret, drop_inv: None, drop_ret: None });
                    }
                }
                OpK::CloneRecv => {
                    if r.new_h != NONE && r.t_ret != 0 {
                        handles.insert(r.new_h, HandleInfo { id: r.new_h, sender: false, stream: r.stream, born_inv: r.t_inv, born_ret: r.t_ret, drop_inv: None, drop_ret: None });
                        if let Some(s) = streams.get_mut(&r.stream) {
                            s.handles.push(r.new_h);
                            s.shared = true;
                        }
                    }
                }
                OpK::CloneSender => {
                    if r.new_h != NONE && r.t_ret != 0 {
                        handles.insert(r.new_h, HandleInfo { id: r.new_h, sender: true, stream: NO_STREAM, born_inv: r.t_inv, born_ret: r.t_ret, drop_inv: None, drop_ret: None });
                    }
                }
                OpK::DropRecv | OpK::Unsub | OpK::DropSender | OpK::UnsubSender => {
                    if let Some(h) = handles.get_mut(&r.h) {
                        h.drop_inv = Some(r.t_inv);
                        h.drop_ret = if r.t_ret != 0 { Some(r.t_ret) } else { None };
                    }
                }
                _ => {}
            }
            if r.op.is_send() {
                attempted.insert(r.val);
                if r.t_inv < first_send_inv {
                    first_send_inv = r.t_inv;
                }
                if is_ok_send(r) {
                    accepted.insert(r.val, i);
                    accepted_by_ret.push(i);
                }
            }
            if r.op.is_recv() {
                if let Some(s) = streams.get_mut(&r.stream) {
                    match r.res {
                        Res::Val(_) => s.deliveries.push(i),
                        Res::End => s.ends.push(i),
                        _ => {}
                    }
                }
            }
        }
        accepted_by_ret.sort_by_key(|&i| recs[i].t_ret);

        // stream lifetimes
        for s in streams.values_mut() {
            let mut all_dropped = true;
            let mut max_inv = 0u64;
            let mut max_ret = 0u64;
            for h in &s.handles {
                match handles.get(h) {
                    Some(HandleInfo { drop_inv: Some(di), drop_ret, .. }) => {
                        max_inv = max_inv.max(*di);
                        match drop_ret {
                            Some(dr) => max_ret = max_ret.max(*dr),
                            None => max_ret = u64::MAX,
                        }
                    }
                    _ => all_dropped = false,
                }
            }
            if all_dropped && !s.handles.is_empty() {
                s.gone_inv = Some(max_inv);
                s.gone_ret = if max_ret == u64::MAX { None } else { Some(max_ret) };
            }
        }

        // C10 interval bounds relative to the parent
        let ids: Vec<u32> = streams.keys().copied().collect();
        for id in ids {
            let (parent, add_inv, add_ret) = {
                let s = &streams[&id];
                (s.parent, s.add_inv, s.add_ret)
            };
            if let Some(p) = parent {
                let (mut lo, mut hi) = (0u64, 0u64);
                if let Some(ps) = streams.get(&p) {
                    for &d in &ps.deliveries {
                        let r = &recs[d];
                        if r.t_ret != 0 && r.t_ret < add_inv {
                            lo += 1;
                        }
                        if r.t_inv < add_ret {
                            hi += 1;
                        }
                    }
                }
                let s = streams.get_mut(&id).unwrap();
                s.lo_parent = lo;
                s.hi_parent = hi;
            }
        }

        Analysis {
            recs,
            streams,
            handles,
            accepted,
            accepted_by_ret,
            attempted,
            first_send_inv,
            join_t,
            complete,
        }
    }

    /// Bounds [lo, hi] on the stream's start position (number of accepted values, counted
    /// in the common order, that it does not deliver).
    pub fn start_bounds(&self, id: u32) -> (u64, u64) {
        let mut lo = 0u64;
        let mut hi = 0u64;
        let mut cur = id;
        let mut guard = 0;
        while let Some(s) = self.streams.get(&cur) {
            match s.parent {
                None => break,
                Some(p) => {
                    lo += s.lo_parent;
                    hi += s.hi_parent;
                    cur = p;
                }
            }
            guard += 1;
            if guard > 64 {
                break;
            }
        }
        (lo, hi)
    }

    /// values delivered on a stream, in invoke order
    pub fn delivered(&self, id: u32) -> Vec<u64> {
        self.streams
            .get(&id)
            .map(|s| {
                s.deliveries
                    .iter()
                    .filter_map(|&i| match self.recs[i].res {
                        Res::Val(v) => Some(v),
                        _ => None,
                    })
                    .collect()
            })
            .unwrap_or_default()
    }

    pub fn live_senders_at(&self, t: u64) -> usize {
        self.handles
            .values()
            .filter(|h| h.sender && h.born_ret <= t && h.drop_inv.map(|d| d > t).unwrap_or(true))
            .count()
    }

    /// all sender handles have had their drop invoked by `t`
    pub fn all_senders_dropping_by(&self, t: u64) -> bool {
        self.handles.values().filter(|h| h.sender).all(|h| h.drop_inv.map(|d| d < t).unwrap_or(false))
    }

    pub fn open_recs(&self) -> Vec<usize> {
        self.recs.iter().enumerate().filter(|(_, r)| r.t_ret == 0).map(|(i, _)| i).collect()
    }
}
