//! C04 add-on: a payload without drop glue on a queue of its own.
//!
//! The checked payload `P` has a destructor, so code paths of the crate that are (or could
//! be made) conditional on `mem::needs_drop::<T>()` never run with it (seed C04e: the view
//! path committed the position before the closure ran when T has no drop glue and the ring
//! has one slot). `Pod` is `Copy`; a second queue of `Pod`s with one producer and one
//! consumer task runs next to the scenario's own threads, under the same scheduler.
//!
//! Oracle (C04 only): a value the consumer looks at is complete (`b == !a`) and does not
//! change while the view closure looks at it (the closure yields to the scheduler in the
//! middle). Nothing else is judged here; the calls are not part of the recorded history.

use crate::payload;
use multiqueue2_verif_rt as rt;

#[derive(Clone, Copy)]
pub struct Pod {
    a: u64,
    b: u64,
}

impl Pod {
    fn new(i: u64) -> Pod {
        let a = 0x9E37_0000_0000_0000 | i;
        Pod { a, b: !a }
    }
}

const POD_SERIAL: u32 = u32::MAX - 1;

fn tick(x: u64) {
    // a value went in or came out: progress for the no-progress detector
    rt::with(|r| r.fp.set(r.fp.get() ^ rt::state::mix(0x90D0_0000_0000_0000 | x, 0x3b)));
}

/// The view closure: look, linger, look again.
fn look(p: &Pod, linger: u8) -> u64 {
    let _g = rt::galloc::NoAttr::new();
    // volatile: `&Pod` promises the compiler an unchanging value, the check is about that promise
    let (a0, b0) = unsafe { (std::ptr::read_volatile(&p.a), std::ptr::read_volatile(&p.b)) };
    if b0 != !a0 {
        payload::violation("torn", POD_SERIAL, format!("pod view start: incomplete value (a={:#x} b={:#x})", a0, b0));
        return a0;
    }
    for _ in 0..linger.max(1) {
        rt::with(|r| r.fault(rt::Fault::SlowView));
        rt::shim::user_point();
    }
    let (a1, b1) = unsafe { (std::ptr::read_volatile(&p.a), std::ptr::read_volatile(&p.b)) };
    if a1 != a0 || b1 != b0 {
        payload::violation(
            "changed_during_observation",
            POD_SERIAL,
            format!("pod view: value without drop glue changed from a={:#x} to a={:#x} b={:#x} during the closure", a0, a1, b1),
        );
    }
    a0
}

fn got(v: Pod) {
    if v.b != !v.a {
        let _g = rt::galloc::NoAttr::new();
        payload::violation("torn", POD_SERIAL, format!("pod try_recv: incomplete value (a={:#x} b={:#x})", v.a, v.b));
    }
}

macro_rules! pod_pair {
    ($tx:ident, $rx:ident, $k:expr, $mode:expr, $linger:expr) => {{
        let k = $k;
        let mode = $mode;
        let linger = $linger;
        let prod = shuttle_std::thread::spawn(move || {
            for i in 0..k {
                let mut v = Pod::new(i);
                loop {
                    match $tx.try_send(v) {
                        Ok(()) => break,
                        Err(std::sync::mpsc::TrySendError::Full(x)) => v = x,
                        Err(std::sync::mpsc::TrySendError::Disconnected(_)) => return,
                    }
                }
                tick(i);
            }
            drop($tx);
        });
        let cons = shuttle_std::thread::spawn(move || {
            let mut n = 0u64;
            if mode == 2 {
                // cloning path of the plain receiver
                while n < k {
                    if let Ok(v) = $rx.try_recv() {
                        got(v);
                        n += 1;
                        tick(0x100 | n);
                    }
                }
                return;
            }
            let urx = match $rx.into_single() {
                Ok(u) => u,
                Err(_) => return,
            };
            while n < k {
                if mode == 0 {
                    if urx.try_recv_view(|p: &Pod| look(p, linger)).is_ok() {
                        n += 1;
                        tick(0x100 | n);
                    }
                } else {
                    for _ in urx.try_iter_with(|p: &Pod| look(p, linger)) {
                        n += 1;
                        tick(0x100 | n);
                    }
                }
            }
        });
        (prod, cons)
    }};
}

pub type PodJoin = shuttle_std::thread::JoinHandle<()>;

/// Start the pair described by `cfg` (see `Scenario::pod`).
pub fn start(cfg: u32, linger: u8) -> (PodJoin, PodJoin) {
    let cap = (cfg & 0xf) as u64;
    let mode = (cfg >> 4) & 0xf;
    let k = ((cfg >> 8) & 0xff) as u64;
    if (cfg >> 16) & 1 == 0 {
        let (tx, rx) = multiqueue2::broadcast_queue::<Pod>(cap);
        pod_pair!(tx, rx, k, mode, linger)
    } else {
        let (tx, rx) = multiqueue2::mpmc_queue::<Pod>(cap);
        pod_pair!(tx, rx, k, mode, linger)
    }
}
