//! Scenario families: seeded generators, each aimed at the windows one group of properties
//! cares about. Sizes are deliberately small (many short diverse runs).

use crate::handles::{Flavour, QueueCfg, WaitK};
use crate::prng::Rng;
use crate::scenario::*;
use crate::sched::{SchedCfg, StallPlan, Strategy};

pub struct Gen {
    pub rng: Rng,
    next_h: u32,
}

impl Gen {
    pub fn new(seed: u64) -> Gen {
        Gen { rng: Rng::new(seed), next_h: 2 }
    }
    pub fn h(&mut self) -> u32 {
        let h = self.next_h;
        self.next_h += 1;
        h
    }
}

pub const SPINS: [(u32, u32); 4] = [(0, 0), (1, 1), (2, 3), (50, 50)];

pub fn pick_wait(r: &mut Rng, allow_busy: bool) -> WaitK {
    let (a, b) = *r.pick(&SPINS);
    match r.below(if allow_busy { 3 } else { 2 }) {
        0 => WaitK::Block(a, b),
        1 => WaitK::Yield(a, b),
        _ => WaitK::Busy,
    }
}

pub fn pick_cap(r: &mut Rng) -> u64 {
    // requests 0..9 -> N in {1,2,4,8,16}; small N dominates
    *r.pick(&[0u64, 1, 1, 2, 2, 2, 3, 4, 4, 5, 6, 7, 8, 9])
}

pub fn pick_small_cap(r: &mut Rng) -> u64 {
    *r.pick(&[0u64, 1, 1, 2, 2, 3, 4])
}

pub fn pick_strategy(r: &mut Rng, allow_pct: bool) -> Strategy {
    match r.below(10) {
        0..=3 => Strategy::Uniform,
        4..=7 => Strategy::Sticky(*r.pick(&[500u32, 900, 980])),
        _ => {
            if allow_pct {
                Strategy::Pct(r.range(1, 3) as u32)
            } else {
                Strategy::Uniform
            }
        }
    }
}

pub fn sched_for(r: &mut Rng, scn: &Scenario, stall_bias: u64) -> SchedCfg {
    // BusyWait never yields: priority schedules could starve the thread it waits for until
    // the fairness fallback kicks in, which is legal but slow; keep PCT for the others
    let busy = !scn.queue.fut && scn.queue.wait == WaitK::Busy;
    let mut c = SchedCfg::new(r.next(), pick_strategy(r, !busy));
    if r.below(100) < stall_bias {
        let k = r.range(1, 3);
        for _ in 0..k {
            c.stalls.push(StallPlan {
                at_step: r.below(600),
                len: r.range(50, 2000) as u32,
                prefer_in_api: r.chance(3, 4),
            });
        }
    }
    c
}

fn plain_queue(r: &mut Rng, flavour: Flavour, cap: u64) -> QueueCfg {
    QueueCfg {
        flavour,
        fut: false,
        cap_req: cap,
        wait: pick_wait(r, true),
        fut_spins: None,
    }
}

fn fut_queue(r: &mut Rng, flavour: Flavour, cap: u64) -> QueueCfg {
    QueueCfg {
        flavour,
        fut: true,
        cap_req: cap,
        wait: WaitK::Busy,
        fut_spins: if flavour == Flavour::Bcast && r.chance(3, 4) {
            Some(*r.pick(&SPINS))
        } else {
            None
        },
    }
}

fn pick_flavour(r: &mut Rng) -> Flavour {
    if r.chance(1, 2) {
        Flavour::Bcast
    } else {
        Flavour::Mpmc
    }
}

/// how a consumer thread receives until the end of the stream
fn consume_until_end(r: &mut Rng, h: u32, uni: bool, fut: bool, blocking_ok: bool) -> Vec<Op> {
    let after_end = r.below(3) as u8;
    if fut {
        return vec![Op::Consume { h, api: RecvApi::Poll, quota: UNLIMITED, max_empty: UNLIMITED, after_end }];
    }
    let mut choices: Vec<RecvApi> = vec![RecvApi::TryRecv, RecvApi::TryIter];
    if blocking_ok {
        choices.push(RecvApi::Recv);
        choices.push(RecvApi::Iter);
    }
    if uni {
        choices.push(RecvApi::TryRecvView);
        choices.push(RecvApi::TryIterWith);
        if blocking_ok {
            choices.push(RecvApi::RecvView);
            choices.push(RecvApi::IterWith);
        }
    }
    let api = *r.pick(&choices);
    match api {
        RecvApi::TryIter | RecvApi::TryIterWith => {
            // the non-blocking iterators cannot tell Empty from the end: use them for a
            // while, then finish with an entry point that can
            let fin = if uni && r.chance(1, 2) { RecvApi::TryRecvView } else { RecvApi::TryRecv };
            vec![
                Op::Consume { h, api, quota: UNLIMITED, max_empty: r.range(1, 4) as u32, after_end: 0 },
                Op::Consume { h, api: fin, quota: UNLIMITED, max_empty: UNLIMITED, after_end },
            ]
        }
        _ => vec![Op::Consume { h, api, quota: UNLIMITED, max_empty: UNLIMITED, after_end }],
    }
}

pub struct CoreOpts {
    pub fut: bool,
    pub max_producers: u64,
    pub max_streams: u64,
    pub max_consumers: u64,
    pub force_shared: bool,
    pub small_cap: bool,
    pub zero_spins: bool,
    pub blocking_ok: bool,
    pub slow: bool,
    pub min_values_factor: u64,
}

impl Default for CoreOpts {
    fn default() -> Self {
        CoreOpts {
            fut: false,
            max_producers: 3,
            max_streams: 3,
            max_consumers: 3,
            force_shared: false,
            small_cap: false,
            zero_spins: false,
            blocking_ok: true,
            slow: false,
            min_values_factor: 0,
        }
    }
}

/// `core` / `shared` / `fut` / `slowclone`: producers with retry-until-accepted sends, streams
/// created before traffic, consumers that run to the end of the stream.
pub fn core(seed: u64, name: &str, o: &CoreOpts) -> (Scenario, SchedCfg) {
    let mut g = Gen::new(seed);
    let flavour = pick_flavour(&mut g.rng);
    let cap = if o.small_cap { pick_small_cap(&mut g.rng) } else { pick_cap(&mut g.rng) };
    let mut q = if o.fut { fut_queue(&mut g.rng, flavour, cap) } else { plain_queue(&mut g.rng, flavour, cap) };
    if o.zero_spins {
        if o.fut {
            if flavour == Flavour::Bcast {
                q.fut_spins = Some((0, 0));
            }
        } else {
            q.wait = match q.wait {
                WaitK::Busy => WaitK::Busy,
                WaitK::Yield(..) => WaitK::Yield(0, 0),
                WaitK::Block(..) => WaitK::Block(0, 0),
            };
        }
    }
    let mut s = Scenario::new(name, q);
    let n = s.queue.capacity();
    // producers
    let np = g.rng.range(1, o.max_producers);
    let mut senders = vec![0u32];
    for _ in 1..np {
        let h = g.h();
        s.setup.push(Op::CloneSender { h: 0, new: h });
        senders.push(h);
    }
    // streams
    let ns = if flavour == Flavour::Bcast { g.rng.range(1, o.max_streams) } else { 1 };
    let mut streams: Vec<Vec<u32>> = vec![vec![1]];
    for _ in 1..ns {
        let h = g.h();
        s.setup.push(Op::AddStream { h: 1, new: h });
        streams.push(vec![h]);
    }
    // consumers per stream
    let mut total_consumers = ns;
    for st in streams.iter_mut() {
        let want = if o.force_shared { g.rng.range(2, o.max_consumers.max(2)) } else { g.rng.range(1, o.max_consumers) };
        for _ in 1..want {
            if total_consumers >= 5 {
                break;
            }
            let h = g.h();
            s.setup.push(Op::CloneRecv { h: st[0], new: h });
            st.push(h);
            total_consumers += 1;
        }
    }
    // values
    let per = {
        let lo = 2.max(o.min_values_factor * n / np.max(1));
        g.rng.range(lo.min(10), (lo + 6).min(12))
    };
    for &h in &senders {
        let api = if o.fut && g.rng.chance(3, 4) { SendApi::Sink } else { SendApi::TrySend };
        s.threads.push(ThreadSpec {
            handles: vec![h],
            prog: vec![Op::Produce { h, n: per as u32, api, max_retry: UNLIMITED }, Op::DropSender { h }],
            spawned: false,
        });
    }
    for st in &streams {
        let single = st.len() == 1;
        for &h in st {
            let mut prog = Vec::new();
            let uni = single && g.rng.chance(1, 2);
            if uni {
                // conversion happens in setup so that it cannot race a sibling clone
                s.setup.push(Op::IntoSingle { h });
            }
            // futures uni receivers poll through the stored closure
            prog.extend(consume_until_end(&mut g.rng, h, uni && !o.fut, o.fut, o.blocking_ok));
            s.threads.push(ThreadSpec { handles: vec![h], prog, spawned: false });
        }
    }
    if o.slow {
        s.slow_clone = g.rng.range(1, 3) as u8;
        s.slow_view = g.rng.range(1, 3) as u8;
    } else if g.rng.chance(1, 5) {
        s.slow_clone = 1;
        s.slow_view = 1;
    }
    if g.rng.chance(3, 10) {
        s.weak_cas_rate = 2500;
    }
    if o.fut && g.rng.chance(1, 2) {
        s.spurious_poll = 40;
    }
    s.tags = common_tags(&s);
    let c = sched_for(&mut g.rng, &s, 30);
    (s, c)
}

pub fn common_tags(s: &Scenario) -> Vec<String> {
    let mut t = vec![
        format!("family={}", s.family),
        format!(
            "flavour={}",
            match s.queue.flavour {
                Flavour::Bcast => "broadcast",
                Flavour::Mpmc => "mpmc",
            }
        ),
        format!("N={}", s.queue.capacity()),
    ];
    if s.queue.fut {
        t.push("futures".into());
        match s.queue.fut_spins {
            None => t.push("spins=default".into()),
            Some((a, b)) => t.push(format!("spins={}/{}", a, b)),
        }
    } else {
        t.push(format!("wait={}", crate::scenario::wait_json(&s.queue.wait).as_str().unwrap_or("")));
    }
    t
}

/// `blockrecv`: consumers with *quotas* inside blocking receives; producers send exactly the
/// quota total and then either hold their handle until all consumers are done or drop it.
pub fn blockrecv(seed: u64) -> (Scenario, SchedCfg) {
    quota_family(seed, false)
}

/// `futpark`: the same quota discipline through Sink tasks and Stream tasks (C14): 1-2 sink
/// tasks, 1-3 stream tasks on shared and separate streams, zero and default spins,
/// N in {1,2}; receivers drain through poll, through the direct try_recv method on a
/// plain thread, or are dropped.
pub fn futpark(seed: u64) -> (Scenario, SchedCfg) {
    quota_family(seed, true)
}

fn quota_family(seed: u64, fut: bool) -> (Scenario, SchedCfg) {
    let mut g = Gen::new(seed);
    let flavour = pick_flavour(&mut g.rng);
    let cap = if fut { *g.rng.pick(&[0u64, 1, 2, 2]) } else { *g.rng.pick(&[0u64, 1, 2, 2, 3, 4]) };
    let (a, b) = *g.rng.pick(&[(0u32, 0u32), (0, 0), (1, 1), (50, 50)]);
    let wait = match g.rng.below(3) {
        0 => WaitK::Busy,
        1 => WaitK::Yield(a, b),
        _ => WaitK::Block(a, b),
    };
    let q = if fut {
        QueueCfg {
            flavour,
            fut: true,
            cap_req: cap,
            wait: WaitK::Busy,
            fut_spins: if flavour == Flavour::Bcast && g.rng.chance(3, 4) { Some(*g.rng.pick(&[(0u32, 0u32), (0, 0), (1, 1)])) } else { None },
        }
    } else {
        QueueCfg { flavour, fut: false, cap_req: cap, wait, fut_spins: None }
    };
    let mut s = Scenario::new(if fut { "futpark" } else { "blockrecv" }, q);
    let ns = if flavour == Flavour::Bcast { g.rng.range(1, 2) } else { 1 };
    let mut streams: Vec<Vec<u32>> = vec![vec![1]];
    for _ in 1..ns {
        let h = g.h();
        s.setup.push(Op::AddStream { h: 1, new: h });
        streams.push(vec![h]);
    }
    let mut total = ns;
    for st in streams.iter_mut() {
        let want = g.rng.range(1, 3);
        for _ in 1..want {
            if total >= 4 {
                break;
            }
            let h = g.h();
            s.setup.push(Op::CloneRecv { h: st[0], new: h });
            st.push(h);
            total += 1;
        }
    }
    let np = g.rng.range(1, 2);
    let mut senders = vec![0u32];
    for _ in 1..np {
        let h = g.h();
        s.setup.push(Op::CloneSender { h: 0, new: h });
        senders.push(h);
    }
    let per = g.rng.range(2, 6);
    let total_vals = per * np;
    // senders hold their handles until every consumer is done ("no further traffic"), or drop
    let hold = g.rng.chance(1, 2);
    let n_consumers: usize = streams.iter().map(|x| x.len()).sum();
    for (i, &h) in senders.iter().enumerate() {
        let mut prog = vec![Op::Produce { h, n: per as u32, api: if fut { SendApi::Sink } else { SendApi::TrySend }, max_retry: UNLIMITED }];
        if hold {
            for c in 0..n_consumers {
                prog.push(Op::Await(c as u8));
            }
        }
        let _ = i;
        prog.push(Op::DropSender { h });
        s.threads.push(ThreadSpec { handles: vec![h], prog, spawned: false });
    }
    let mut cidx = 0u8;
    for st in &streams {
        // split the stream's values among its consumers as quotas
        let k = st.len() as u64;
        let mut left = total_vals;
        let single = k == 1;
        for (j, &h) in st.iter().enumerate() {
            let quota = if hold {
                if j as u64 == k - 1 {
                    left
                } else {
                    let qv = g.rng.range(0, left.min(total_vals / k + 1));
                    left -= qv;
                    qv
                }
            } else {
                u64::MAX
            };
            let uni = single && g.rng.chance(1, 2);
            if uni {
                s.setup.push(Op::IntoSingle { h });
            }
            let mut apis = vec![RecvApi::Recv, RecvApi::Recv, RecvApi::Iter];
            if uni {
                apis.push(RecvApi::RecvView);
                apis.push(RecvApi::IterWith);
            }
            if fut {
                // poll inside a task, or the direct non-blocking method on a plain thread
                apis = vec![RecvApi::Poll, RecvApi::Poll, RecvApi::TryRecv];
            }
            let api = *g.rng.pick(&apis);
            let mut prog = Vec::new();
            if hold {
                if quota > 0 {
                    prog.push(Op::Consume { h, api, quota: quota as u32, max_empty: UNLIMITED, after_end: 0 });
                }
                // a consumer that leaves after its share (iterators have dropped it already)
                if !matches!(api, RecvApi::Iter | RecvApi::IterWith) || quota == 0 {
                    if g.rng.chance(1, 2) {
                        prog.push(Op::DropRecv { h });
                    }
                }
                prog.push(Op::Signal(cidx));
            } else {
                prog.push(Op::Consume { h, api, quota: UNLIMITED, max_empty: UNLIMITED, after_end: g.rng.below(2) as u8 });
            }
            cidx += 1;
            s.threads.push(ThreadSpec { handles: vec![h], prog, spawned: false });
        }
    }
    s.probe = true;
    if g.rng.chance(1, 4) {
        s.slow_clone = 1;
        s.slow_view = 1;
    }
    if fut && g.rng.chance(1, 2) {
        s.spurious_poll = 40;
    }
    s.tags = common_tags(&s);
    s.tags.push(if hold { "senders_hold".into() } else { "senders_drop".into() });
    let c = sched_for(&mut g.rng, &s, 40);
    (s, c)
}

/// `disconnect`: the last senders' final sends and drops race consumers on every entry point.
pub fn disconnect(seed: u64) -> (Scenario, SchedCfg) {
    let mut g = Gen::new(seed);
    let fut = g.rng.chance(1, 4);
    let flavour = pick_flavour(&mut g.rng);
    let cap = pick_small_cap(&mut g.rng);
    let q = if fut { fut_queue(&mut g.rng, flavour, cap) } else { plain_queue(&mut g.rng, flavour, cap) };
    let mut s = Scenario::new("disconnect", q);
    let np = g.rng.range(1, 3);
    let mut senders = vec![0u32];
    // clones created in setup or by a sender thread itself (multi-writer mode at drop time)
    for _ in 1..np {
        let h = g.h();
        s.setup.push(Op::CloneSender { h: 0, new: h });
        senders.push(h);
    }
    let ns = if flavour == Flavour::Bcast { g.rng.range(1, 3) } else { 1 };
    let mut streams: Vec<Vec<u32>> = vec![vec![1]];
    for _ in 1..ns {
        let h = g.h();
        s.setup.push(Op::AddStream { h: 1, new: h });
        streams.push(vec![h]);
    }
    let mut total = ns;
    for st in streams.iter_mut() {
        let want = g.rng.range(1, 3);
        for _ in 1..want {
            if total >= 4 {
                break;
            }
            let h = g.h();
            s.setup.push(Op::CloneRecv { h: st[0], new: h });
            st.push(h);
            total += 1;
        }
    }
    for &h in &senders {
        let per = g.rng.range(0, 4) as u32;
        let mut prog = Vec::new();
        // a sender that clones itself, lets the clone go first or last
        if g.rng.chance(1, 4) {
            let c = g.h();
            prog.push(Op::CloneSender { h, new: c });
            if g.rng.chance(1, 2) {
                prog.push(Op::DropSender { h: c });
                prog.push(Op::Produce { h, n: per, api: SendApi::TrySend, max_retry: UNLIMITED });
                prog.push(Op::DropSender { h });
            } else {
                prog.push(Op::Produce { h, n: per, api: SendApi::TrySend, max_retry: UNLIMITED });
                prog.push(Op::DropSender { h });
                prog.push(Op::Produce { h: c, n: 1, api: SendApi::TrySend, max_retry: UNLIMITED });
                prog.push(Op::DropSender { h: c });
            }
        } else {
            let api = if fut && g.rng.chance(1, 2) { SendApi::Sink } else { SendApi::TrySend };
            prog.push(Op::Produce { h, n: per, api, max_retry: UNLIMITED });
            if g.rng.chance(1, 3) {
                prog.push(Op::UnsubSender { h });
            } else {
                prog.push(Op::DropSender { h });
            }
        }
        s.threads.push(ThreadSpec { handles: vec![h], prog, spawned: false });
    }
    for st in &streams {
        let single = st.len() == 1;
        for &h in st {
            let uni = single && g.rng.chance(1, 2);
            if uni {
                s.setup.push(Op::IntoSingle { h });
            }
            let mut prog = consume_until_end(&mut g.rng, h, uni && !fut, fut, true);
            // make sure the end is re-checked at least once
            if let Some(Op::Consume { after_end, .. }) = prog.last_mut() {
                *after_end = (*after_end).max(1);
            }
            s.threads.push(ThreadSpec { handles: vec![h], prog, spawned: false });
        }
    }
    if g.rng.chance(1, 4) {
        s.slow_clone = 1;
        s.slow_view = 1;
    }
    if fut && g.rng.chance(1, 2) {
        s.spurious_poll = 40;
    }
    s.tags = common_tags(&s);
    let c = sched_for(&mut g.rng, &s, 40);
    (s, c)
}
