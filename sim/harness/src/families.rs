//! Scenario families: seeded generators, each aimed at the windows one group of properties
//! cares about. Sizes are deliberately small (many short diverse runs).

use crate::handles::{Flavour, QueueCfg, WaitK};
use crate::prng::Rng;
use crate::scenario::*;
use crate::sched::{SchedCfg, StallPlan, Strategy};

pub struct Gen {
    pub rng: Rng,
    next_h: u32,
}

impl Gen {
    pub fn new(seed: u64) -> Gen {
        Gen { rng: Rng::new(seed), next_h: 2 }
    }
    pub fn h(&mut self) -> u32 {
        let h = self.next_h;
        self.next_h += 1;
        h
    }
}

pub const SPINS: [(u32, u32); 5] = [(0, 0), (1, 1), (2, 3), (0, 2), (50, 50)];

pub fn pick_wait(r: &mut Rng, allow_busy: bool) -> WaitK {
    let (a, b) = *r.pick(&SPINS);
    match r.below(if allow_busy { 3 } else { 2 }) {
        0 => WaitK::Block(a, b),
        1 => WaitK::Yield(a, b),
        _ => WaitK::Busy,
    }
}

pub fn pick_cap(r: &mut Rng) -> u64 {
    // requests 0..9 -> N in {1,2,4,8,16}; small N dominates
    *r.pick(&[0u64, 1, 1, 2, 2, 2, 3, 4, 4, 5, 6, 7, 8, 9])
}

pub fn pick_small_cap(r: &mut Rng) -> u64 {
    *r.pick(&[0u64, 1, 1, 2, 2, 3, 4])
}

pub fn pick_strategy(r: &mut Rng, allow_pct: bool) -> Strategy {
    match r.below(10) {
        0..=3 => Strategy::Uniform,
        4..=7 => Strategy::Sticky(*r.pick(&[500u32, 900, 980])),
        _ => {
            if allow_pct {
                Strategy::Pct(r.range(1, 3) as u32)
            } else {
                Strategy::Uniform
            }
        }
    }
}

pub fn sched_for(r: &mut Rng, scn: &Scenario, stall_bias: u64) -> SchedCfg {
    // BusyWait never yields: priority schedules could starve the thread it waits for until
    // the fairness fallback kicks in, which is legal but slow; keep PCT for the others
    let busy = !scn.queue.fut && scn.queue.wait == WaitK::Busy;
    let mut c = SchedCfg::new(r.next(), pick_strategy(r, !busy));
    if r.below(100) < stall_bias {
        let k = r.range(1, 3);
        for _ in 0..k {
            c.stalls.push(StallPlan {
                at_step: r.below(600),
                len: r.range(50, 2000) as u32,
                prefer_in_api: r.chance(3, 4),
            });
        }
    }
    c
}

fn plain_queue(r: &mut Rng, flavour: Flavour, cap: u64) -> QueueCfg {
    QueueCfg {
        flavour,
        fut: false,
        cap_req: cap,
        wait: pick_wait(r, true),
        fut_spins: None,
    }
}

fn fut_queue(r: &mut Rng, flavour: Flavour, cap: u64) -> QueueCfg {
    QueueCfg {
        flavour,
        fut: true,
        cap_req: cap,
        wait: WaitK::Busy,
        fut_spins: if flavour == Flavour::Bcast && r.chance(3, 4) {
            Some(*r.pick(&SPINS))
        } else {
            None
        },
    }
}

fn pick_flavour(r: &mut Rng) -> Flavour {
    if r.chance(1, 2) {
        Flavour::Bcast
    } else {
        Flavour::Mpmc
    }
}

/// how a consumer thread receives until the end of the stream
fn consume_until_end(r: &mut Rng, h: u32, uni: bool, fut: bool, blocking_ok: bool) -> Vec<Op> {
    consume_until_end2(r, h, uni, fut, blocking_ok, false)
}

fn consume_until_end2(r: &mut Rng, h: u32, uni: bool, fut: bool, blocking_ok: bool, fut_direct: bool) -> Vec<Op> {
    let after_end = r.below(3) as u8;
    if fut {
        let api = if fut_direct { *r.pick(&[RecvApi::Poll, RecvApi::Recv, RecvApi::Recv, RecvApi::TryRecv]) } else { RecvApi::Poll };
        return vec![Op::Consume { h, api, quota: UNLIMITED, max_empty: UNLIMITED, after_end }];
    }
    let mut choices: Vec<RecvApi> = vec![RecvApi::TryRecv, RecvApi::TryIter];
    if blocking_ok {
        choices.push(RecvApi::Recv);
        choices.push(RecvApi::Iter);
    }
    if uni {
        choices.push(RecvApi::TryRecvView);
        choices.push(RecvApi::TryIterWith);
        if blocking_ok {
            choices.push(RecvApi::RecvView);
            choices.push(RecvApi::IterWith);
        }
    }
    let api = *r.pick(&choices);
    match api {
        RecvApi::TryIter | RecvApi::TryIterWith => {
            // the non-blocking iterators cannot tell Empty from the end: use them for a
            // while, then finish with an entry point that can
            let fin = if uni && r.chance(1, 2) { RecvApi::TryRecvView } else { RecvApi::TryRecv };
            vec![
                Op::Consume { h, api, quota: UNLIMITED, max_empty: r.range(1, 4) as u32, after_end: 0 },
                Op::Consume { h, api: fin, quota: UNLIMITED, max_empty: UNLIMITED, after_end },
            ]
        }
        _ => vec![Op::Consume { h, api, quota: UNLIMITED, max_empty: UNLIMITED, after_end }],
    }
}

pub struct CoreOpts {
    pub fut: bool,
    pub max_producers: u64,
    pub max_streams: u64,
    pub max_consumers: u64,
    pub force_shared: bool,
    pub small_cap: bool,
    pub zero_spins: bool,
    pub blocking_ok: bool,
    pub slow: bool,
    pub min_values_factor: u64,
    /// futures consumers also use the direct try_recv / recv methods (C15)
    pub fut_direct: bool,
    /// add threads that perform single operations with everybody else frozen:
    /// 1 = try_send / try_recv / try_recv_view (C18), 2 = poll / start_send (C15)
    pub solo: u8,
    /// only wait strategies that need no notification (busy, yielding)
    pub no_notify_wait: bool,
    /// on shared streams one consumer takes a few values and then drops its handle while
    /// its siblings are still receiving (consumer count 2 -> 1 under traffic)
    pub leavers: bool,
}

impl Default for CoreOpts {
    fn default() -> Self {
        CoreOpts {
            fut: false,
            max_producers: 3,
            max_streams: 3,
            max_consumers: 3,
            force_shared: false,
            small_cap: false,
            zero_spins: false,
            blocking_ok: true,
            slow: false,
            min_values_factor: 0,
            fut_direct: false,
            solo: 0,
            no_notify_wait: false,
            leavers: false,
        }
    }
}

/// `core` / `shared` / `fut` / `slowclone`: producers with retry-until-accepted sends, streams
/// created before traffic, consumers that run to the end of the stream.
pub fn core(seed: u64, name: &str, o: &CoreOpts) -> (Scenario, SchedCfg) {
    let mut g = Gen::new(seed);
    let flavour = pick_flavour(&mut g.rng);
    let cap = if o.small_cap { pick_small_cap(&mut g.rng) } else { pick_cap(&mut g.rng) };
    let mut q = if o.fut { fut_queue(&mut g.rng, flavour, cap) } else { plain_queue(&mut g.rng, flavour, cap) };
    if o.no_notify_wait && !o.fut {
        if let WaitK::Block(a, b) = q.wait {
            q.wait = if g.rng.chance(1, 2) { WaitK::Busy } else { WaitK::Yield(a, b) };
        }
    }
    if o.zero_spins {
        if o.fut {
            if flavour == Flavour::Bcast {
                q.fut_spins = Some((0, 0));
            }
        } else {
            q.wait = match q.wait {
                WaitK::Busy => WaitK::Busy,
                WaitK::Yield(..) => WaitK::Yield(0, 0),
                WaitK::Block(..) => WaitK::Block(0, 0),
            };
        }
    }
    let mut s = Scenario::new(name, q);
    let n = s.queue.capacity();
    // producers
    let np = g.rng.range(1, o.max_producers);
    let mut senders = vec![0u32];
    for _ in 1..np {
        let h = g.h();
        s.setup.push(Op::CloneSender { h: 0, new: h });
        senders.push(h);
    }
    // streams
    let ns = if flavour == Flavour::Bcast { g.rng.range(1, o.max_streams) } else { 1 };
    let mut streams: Vec<Vec<u32>> = vec![vec![1]];
    for _ in 1..ns {
        let h = g.h();
        s.setup.push(Op::AddStream { h: 1, new: h });
        streams.push(vec![h]);
    }
    // consumers per stream
    let mut total_consumers = ns;
    for st in streams.iter_mut() {
        let want = if o.force_shared { g.rng.range(2, o.max_consumers.max(2)) } else { g.rng.range(1, o.max_consumers) };
        for _ in 1..want {
            if total_consumers >= 5 {
                break;
            }
            let h = g.h();
            s.setup.push(Op::CloneRecv { h: st[0], new: h });
            st.push(h);
            total_consumers += 1;
        }
    }
    // solo receiver (created before any conversion so that clone / add_stream are legal)
    let mut solo_recv: Option<(u32, bool)> = None;
    if o.solo != 0 {
        let hr = g.h();
        // on a broadcast queue the solo receiver usually gets a stream of its own; with
        // `force_shared` it is, half of the time, a sibling handle on the first stream, so
        // that its try_recv meets slots pinned by a frozen sibling (seed C18e)
        let own_stream = flavour == Flavour::Bcast && !(o.force_shared && g.rng.chance(1, 2));
        if own_stream {
            s.setup.push(Op::AddStream { h: 1, new: hr });
        } else {
            s.setup.push(Op::CloneRecv { h: 1, new: hr });
            // the first stream is now shared: no conversion of its handles
            streams[0].push(u32::MAX);
        }
        solo_recv = Some((hr, own_stream));
    }
    // values
    let per = {
        let lo = 2.max(o.min_values_factor * n / np.max(1));
        g.rng.range(lo.min(10), (lo + 6).min(12))
    };
    for &h in &senders {
        let api = if o.fut && g.rng.chance(3, 4) { SendApi::Sink } else { SendApi::TrySend };
        s.threads.push(ThreadSpec {
            handles: vec![h],
            prog: vec![Op::Produce { h, n: per as u32, api, max_retry: UNLIMITED }, Op::DropSender { h }],
            spawned: false,
        });
    }
    for st in &streams {
        let single = st.len() == 1;
        for &h in st {
            if h == u32::MAX {
                continue;
            }
            let mut prog = Vec::new();
            let uni = single && g.rng.chance(1, 2);
            if uni {
                // conversion happens in setup so that it cannot race a sibling clone
                s.setup.push(Op::IntoSingle { h });
            } else if single && g.rng.chance(1, 5) {
                // round trip: the handle the traffic runs on went through into_single and
                // into_multi (seed C15e: into_multi built the handle with swapped wait lists)
                s.setup.push(Op::IntoSingle { h });
                s.setup.push(Op::IntoMulti { h });
            }
            // futures uni receivers poll through the stored closure
            let real_handles = st.iter().filter(|x| **x != u32::MAX).count();
            if o.leavers && real_handles >= 2 && h == st[0] && g.rng.chance(2, 3) {
                // this consumer leaves early; its siblings keep the stream draining
                let api = if o.fut { *g.rng.pick(&[RecvApi::TryRecv, RecvApi::Poll]) } else { *g.rng.pick(&[RecvApi::TryRecv, RecvApi::TryIter]) };
                prog.push(Op::Consume { h, api, quota: g.rng.range(1, 3) as u32, max_empty: g.rng.range(2, 8) as u32, after_end: 0 });
                prog.push(if g.rng.chance(1, 2) { Op::DropRecv { h } } else { Op::Unsub { h } });
            } else {
                prog.extend(consume_until_end2(&mut g.rng, h, uni && !o.fut, o.fut, o.blocking_ok, o.fut_direct));
            }
            s.threads.push(ThreadSpec { handles: vec![h], prog, spawned: false });
        }
    }
    if let Some((hr, own_stream)) = solo_recv {
        // a receiver that performs single operations while everybody else is frozen, then
        // drains like any other consumer
        let uni = own_stream && !o.fut && g.rng.chance(1, 2);
        if uni {
            s.setup.push(Op::IntoSingle { h: hr });
        }
        let mut prog = Vec::new();
        for _ in 0..g.rng.range(1, 3) {
            prog.push(Op::Yield(g.rng.range(0, 6) as u8));
            let kind = if o.solo == 2 {
                TryKind::Poll
            } else if uni && g.rng.chance(1, 2) {
                TryKind::RecvView
            } else {
                TryKind::Recv
            };
            prog.push(Op::SoloTry { h: hr, kind });
        }
        prog.extend(consume_until_end2(&mut g.rng, hr, uni, o.fut, o.blocking_ok, false));
        s.threads.push(ThreadSpec { handles: vec![hr], prog, spawned: false });
        let hs = g.h();
        s.setup.insert(0, Op::CloneSender { h: 0, new: hs });
        let mut prog = Vec::new();
        for _ in 0..g.rng.range(1, 3) {
            prog.push(Op::Yield(g.rng.range(0, 6) as u8));
            prog.push(Op::SoloTry { h: hs, kind: if o.solo == 2 { TryKind::StartSend } else { TryKind::Send } });
        }
        prog.push(Op::DropSender { h: hs });
        s.threads.push(ThreadSpec { handles: vec![hs], prog, spawned: false });
    }
    if o.slow {
        s.slow_clone = g.rng.range(1, 3) as u8;
        s.slow_view = g.rng.range(1, 3) as u8;
    } else if g.rng.chance(1, 5) {
        s.slow_clone = 1;
        s.slow_view = 1;
    }
    if g.rng.chance(3, 10) {
        s.weak_cas_rate = 2500;
    }
    if o.fut && g.rng.chance(1, 2) {
        s.spurious_poll = 40;
    }
    common_faults(&mut g, &mut s);
    s.tags = common_tags(&s);
    let c = sched_for(&mut g.rng, &s, 30);
    (s, c)
}

/// Fault knobs every concurrent family draws from (swarm style: each is on in a random
/// subset of the runs): spurious weak-CAS failures, slow clone / view, and a stall anchored
/// at a rare branch (between claim and publish, inside a clone or view, at the add_stream
/// snapshot, right after a reader was unlinked).
pub fn common_faults(g: &mut Gen, s: &mut Scenario) {
    if s.weak_cas_rate == 0 && g.rng.chance(3, 10) {
        s.weak_cas_rate = 2500;
    }
    if s.slow_clone == 0 && g.rng.chance(1, 4) {
        s.slow_clone = 1;
        s.slow_view = 1;
    }
    if s.slow_drop == 0 && g.rng.chance(1, 4) {
        s.slow_drop = 1;
    }
    if g.rng.chance(1, 2) {
        s.post_write = true;
    }
    if g.rng.chance(1, 3) {
        s.post_load = true;
    }
    if s.trap.is_none() && g.rng.chance(3, 10) {
        let mut probes = vec![rt_probe::CLAIMED_BEFORE_PUBLISH, rt_probe::CLAIMED_BEFORE_PUBLISH];
        if s.slow_clone > 0 {
            probes.push(rt_probe::CLONE_MID);
            probes.push(rt_probe::VIEW_MID);
        }
        let p = *g.rng.pick(&probes);
        s.trap = Some((p, g.rng.below(6) as u32, g.rng.range(20, 600) as u32));
    }
}

pub fn common_tags(s: &Scenario) -> Vec<String> {
    let mut t = vec![
        format!("family={}", s.family),
        format!(
            "flavour={}",
            match s.queue.flavour {
                Flavour::Bcast => "broadcast",
                Flavour::Mpmc => "mpmc",
            }
        ),
        format!("N={}", s.queue.capacity()),
    ];
    if s.queue.fut {
        t.push("futures".into());
        match s.queue.fut_spins {
            None => t.push("spins=default".into()),
            Some((a, b)) => t.push(format!("spins={}/{}", a, b)),
        }
    } else {
        t.push(format!("wait={}", crate::scenario::wait_json(&s.queue.wait).as_str().unwrap_or("")));
    }
    t
}

/// `blockrecv`: consumers with *quotas* inside blocking receives; producers send exactly the
/// quota total and then either hold their handle until all consumers are done or drop it.
pub fn blockrecv(seed: u64) -> (Scenario, SchedCfg) {
    quota_family(seed, false)
}

/// `futpark`: the same quota discipline through Sink tasks and Stream tasks (C14): 1-2 sink
/// tasks, 1-3 stream tasks on shared and separate streams, zero and default spins,
/// N in {1,2}; receivers drain through poll, through the direct try_recv method on a
/// plain thread, or are dropped.
pub fn futpark(seed: u64) -> (Scenario, SchedCfg) {
    quota_family(seed, true)
}

fn quota_family(seed: u64, fut: bool) -> (Scenario, SchedCfg) {
    let mut g = Gen::new(seed);
    let flavour = pick_flavour(&mut g.rng);
    let cap = if fut { *g.rng.pick(&[0u64, 1, 2, 2]) } else { *g.rng.pick(&[0u64, 1, 2, 2, 3, 4]) };
    let (a, b) = *g.rng.pick(&[(0u32, 0u32), (0, 0), (1, 1), (50, 50)]);
    let wait = match g.rng.below(3) {
        0 => WaitK::Busy,
        1 => WaitK::Yield(a, b),
        _ => WaitK::Block(a, b),
    };
    let q = if fut {
        QueueCfg {
            flavour,
            fut: true,
            cap_req: cap,
            wait: WaitK::Busy,
            fut_spins: if flavour == Flavour::Bcast && g.rng.chance(3, 4) { Some(*g.rng.pick(&[(0u32, 0u32), (0, 0), (1, 1)])) } else { None },
        }
    } else {
        QueueCfg { flavour, fut: false, cap_req: cap, wait, fut_spins: None }
    };
    let mut s = Scenario::new(if fut { "futpark" } else { "blockrecv" }, q);
    let ns = if flavour == Flavour::Bcast { g.rng.range(1, 2) } else { 1 };
    let mut streams: Vec<Vec<u32>> = vec![vec![1]];
    for _ in 1..ns {
        let h = g.h();
        s.setup.push(Op::AddStream { h: 1, new: h });
        streams.push(vec![h]);
    }
    let mut total = ns;
    for st in streams.iter_mut() {
        let want = g.rng.range(1, 3);
        for _ in 1..want {
            if total >= 4 {
                break;
            }
            let h = g.h();
            s.setup.push(Op::CloneRecv { h: st[0], new: h });
            st.push(h);
            total += 1;
        }
    }
    let np = g.rng.range(1, 2);
    let mut senders = vec![0u32];
    for _ in 1..np {
        let h = g.h();
        s.setup.push(Op::CloneSender { h: 0, new: h });
        senders.push(h);
    }
    let per = g.rng.range(2, 6);
    let total_vals = per * np;
    // senders hold their handles until every consumer is done ("no further traffic"), or drop
    let hold = g.rng.chance(1, 2);
    let n_consumers: usize = streams.iter().map(|x| x.len()).sum();
    for (i, &h) in senders.iter().enumerate() {
        let mut prog = vec![Op::Produce { h, n: per as u32, api: if fut { SendApi::Sink } else { SendApi::TrySend }, max_retry: UNLIMITED }];
        if hold {
            for c in 0..n_consumers {
                prog.push(Op::Await(c as u8));
            }
        }
        let _ = i;
        prog.push(Op::DropSender { h });
        s.threads.push(ThreadSpec { handles: vec![h], prog, spawned: false });
    }
    let mut cidx = 0u8;
    // one of several streams may be abandoned: its consumers take only part of its values
    // (possibly none) and then drop their handles, so that the stream is removed while it is
    // the one that keeps the ring full (parked producers must be woken by the removal)
    let abandoned: Option<usize> = if hold && streams.len() >= 2 && g.rng.chance(1, 3) { Some(g.rng.below(streams.len() as u64) as usize) } else { None };
    for (si, st) in streams.iter().enumerate() {
        // split the stream's values among its consumers as quotas
        let k = st.len() as u64;
        let is_abandoned = abandoned == Some(si);
        let mut left = if is_abandoned { g.rng.range(0, total_vals - 1) } else { total_vals };
        let single = k == 1;
        for (j, &h) in st.iter().enumerate() {
            let quota = if hold {
                if j as u64 == k - 1 {
                    left
                } else {
                    let qv = g.rng.range(0, left.min(total_vals / k + 1));
                    left -= qv;
                    qv
                }
            } else {
                u64::MAX
            };
            let uni = single && g.rng.chance(1, 2);
            if uni {
                s.setup.push(Op::IntoSingle { h });
            } else if single && g.rng.chance(1, 4) {
                // conversion round trip before the traffic (seed C15e)
                s.setup.push(Op::IntoSingle { h });
                s.setup.push(Op::IntoMulti { h });
            }
            let mut apis = vec![RecvApi::Recv, RecvApi::Recv, RecvApi::Iter];
            if uni {
                apis.push(RecvApi::RecvView);
                apis.push(RecvApi::IterWith);
            }
            if fut {
                // poll inside a task, or the direct non-blocking method on a plain thread
                apis = vec![RecvApi::Poll, RecvApi::Poll, RecvApi::TryRecv, RecvApi::Recv];
            }
            let api = *g.rng.pick(&apis);
            let mut prog = Vec::new();
            if hold {
                if quota > 0 {
                    prog.push(Op::Consume { h, api, quota: quota as u32, max_empty: UNLIMITED, after_end: 0 });
                }
                // a consumer that leaves after its share (iterators have dropped it already)
                if !matches!(api, RecvApi::Iter | RecvApi::IterWith) || quota == 0 {
                    if is_abandoned || g.rng.chance(1, 2) {
                        prog.push(Op::DropRecv { h });
                    }
                }
                prog.push(Op::Signal(cidx));
            } else {
                prog.push(Op::Consume { h, api, quota: UNLIMITED, max_empty: UNLIMITED, after_end: g.rng.below(2) as u8 });
            }
            cidx += 1;
            s.threads.push(ThreadSpec { handles: vec![h], prog, spawned: false });
        }
    }
    s.probe = true;
    if g.rng.chance(1, 4) {
        s.slow_clone = 1;
        s.slow_view = 1;
    }
    if fut && g.rng.chance(1, 2) {
        s.spurious_poll = 40;
    }
    common_faults(&mut g, &mut s);
    s.tags = common_tags(&s);
    s.tags.push(if hold { "senders_hold".into() } else { "senders_drop".into() });
    let c = sched_for(&mut g.rng, &s, 40);
    (s, c)
}

/// `futpark.pause` (C14): the receive that frees space is the last event for a while. One
/// stream is the bottleneck; its consumer takes k values and then waits (on a harness latch,
/// outside the queue) until every producer has had all of its N + k values accepted, which
/// is only possible if the parked producer tasks are woken by those k receives - through
/// poll, the direct try_recv / recv methods, or the single-consumer view path. Nothing else
/// happens that could wake them: no later receive, no drop.
pub fn futpark_pause(seed: u64) -> (Scenario, SchedCfg) {
    let mut g = Gen::new(seed);
    let flavour = pick_flavour(&mut g.rng);
    let cap = *g.rng.pick(&[0u64, 1, 2, 2, 3]);
    let q = fut_queue(&mut g.rng, flavour, cap);
    let mut s = Scenario::new("futpark.pause", q);
    let n = s.queue.capacity() as u32;
    let k = g.rng.range(1, 3) as u32;
    let total = n + k;
    // an extra stream whose consumer simply drains everything (broadcast only)
    let extra = flavour == Flavour::Bcast && g.rng.chance(1, 2);
    let mut extra_h = 0;
    if extra {
        extra_h = g.h();
        s.setup.push(Op::AddStream { h: 1, new: extra_h });
    }
    let uni = g.rng.chance(1, 2);
    if uni {
        s.setup.push(Op::IntoSingle { h: 1 });
    } else if g.rng.chance(1, 4) {
        // the bottleneck consumer's handle went through a conversion round trip (seed C15e)
        s.setup.push(Op::IntoSingle { h: 1 });
        s.setup.push(Op::IntoMulti { h: 1 });
    }
    let np = g.rng.range(1, 2) as u32;
    let mut senders = vec![0u32];
    for _ in 1..np {
        let h = g.h();
        s.setup.push(Op::CloneSender { h: 0, new: h });
        senders.push(h);
    }
    // latches: 0 = bottleneck consumer done, 1 = extra consumer done, 6.. = producer i done
    let first = g.rng.range(0, total as u64) as u32;
    for (i, &h) in senders.iter().enumerate() {
        let share = if np == 1 { total } else if i == 0 { first } else { total - first };
        let mut prog = Vec::new();
        if share > 0 {
            prog.push(Op::Produce { h, n: share, api: SendApi::Sink, max_retry: UNLIMITED });
        }
        prog.push(Op::Signal(6 + i as u8));
        prog.push(Op::Await(0));
        if extra {
            prog.push(Op::Await(1));
        }
        prog.push(Op::DropSender { h });
        s.threads.push(ThreadSpec { handles: vec![h], prog, spawned: false });
    }
    let api = *g.rng.pick(&[RecvApi::Poll, RecvApi::TryRecv, RecvApi::Recv]);
    let api2 = *g.rng.pick(&[RecvApi::Poll, RecvApi::TryRecv, RecvApi::Recv]);
    let mut prog = vec![Op::Consume { h: 1, api, quota: k, max_empty: UNLIMITED, after_end: 0 }];
    for i in 0..np {
        prog.push(Op::Await(6 + i as u8));
    }
    prog.push(Op::Consume { h: 1, api: api2, quota: n, max_empty: UNLIMITED, after_end: 0 });
    prog.push(Op::Signal(0));
    s.threads.push(ThreadSpec { handles: vec![1], prog, spawned: false });
    if extra {
        let api = *g.rng.pick(&[RecvApi::Poll, RecvApi::TryRecv, RecvApi::Recv]);
        s.threads.push(ThreadSpec {
            handles: vec![extra_h],
            prog: vec![Op::Consume { h: extra_h, api, quota: total, max_empty: UNLIMITED, after_end: 0 }, Op::Signal(1)],
            spawned: false,
        });
    }
    s.probe = true;
    if g.rng.chance(1, 2) {
        s.spurious_poll = 40;
    }
    common_faults(&mut g, &mut s);
    s.tags = common_tags(&s);
    s.tags.push("senders_hold".into());
    let c = sched_for(&mut g.rng, &s, 40);
    (s, c)
}

/// `disconnect`: the last senders' final sends and drops race consumers on every entry point.
pub fn disconnect(seed: u64) -> (Scenario, SchedCfg) {
    let mut g = Gen::new(seed);
    let fut = g.rng.chance(1, 4);
    let flavour = pick_flavour(&mut g.rng);
    let cap = pick_small_cap(&mut g.rng);
    let q = if fut { fut_queue(&mut g.rng, flavour, cap) } else { plain_queue(&mut g.rng, flavour, cap) };
    let mut s = Scenario::new("disconnect", q);
    let np = g.rng.range(1, 3);
    let mut senders = vec![0u32];
    // clones created in setup or by a sender thread itself (multi-writer mode at drop time)
    for _ in 1..np {
        let h = g.h();
        s.setup.push(Op::CloneSender { h: 0, new: h });
        senders.push(h);
    }
    let ns = if flavour == Flavour::Bcast { g.rng.range(1, 3) } else { 1 };
    let mut streams: Vec<Vec<u32>> = vec![vec![1]];
    for _ in 1..ns {
        let h = g.h();
        s.setup.push(Op::AddStream { h: 1, new: h });
        streams.push(vec![h]);
    }
    let mut total = ns;
    for st in streams.iter_mut() {
        let want = g.rng.range(1, 3);
        for _ in 1..want {
            if total >= 4 {
                break;
            }
            let h = g.h();
            s.setup.push(Op::CloneRecv { h: st[0], new: h });
            st.push(h);
            total += 1;
        }
    }
    for &h in &senders {
        let per = g.rng.range(0, 4) as u32;
        let mut prog = Vec::new();
        // a sender that clones itself, lets the clone go first or last
        if g.rng.chance(1, 4) {
            let c = g.h();
            prog.push(Op::CloneSender { h, new: c });
            if g.rng.chance(1, 2) {
                prog.push(Op::DropSender { h: c });
                prog.push(Op::Produce { h, n: per, api: SendApi::TrySend, max_retry: UNLIMITED });
                prog.push(Op::DropSender { h });
            } else {
                prog.push(Op::Produce { h, n: per, api: SendApi::TrySend, max_retry: UNLIMITED });
                prog.push(Op::DropSender { h });
                prog.push(Op::Produce { h: c, n: 1, api: SendApi::TrySend, max_retry: UNLIMITED });
                prog.push(Op::DropSender { h: c });
            }
        } else {
            let api = if fut && g.rng.chance(1, 2) { SendApi::Sink } else { SendApi::TrySend };
            prog.push(Op::Produce { h, n: per, api, max_retry: UNLIMITED });
            if g.rng.chance(1, 3) {
                prog.push(Op::UnsubSender { h });
            } else {
                prog.push(Op::DropSender { h });
            }
        }
        s.threads.push(ThreadSpec { handles: vec![h], prog, spawned: false });
    }
    for st in &streams {
        let single = st.len() == 1;
        for &h in st {
            let uni = single && g.rng.chance(1, 2);
            if uni {
                s.setup.push(Op::IntoSingle { h });
            }
            if !single && h == st[0] && g.rng.chance(1, 2) {
                // a consumer of a shared stream that takes a few values and leaves while its
                // siblings go on to the end (consumer count 2 -> 1 around the disconnect)
                let api = if fut { *g.rng.pick(&[RecvApi::TryRecv, RecvApi::Poll]) } else { *g.rng.pick(&[RecvApi::TryRecv, RecvApi::TryIter]) };
                let prog = vec![
                    Op::Consume { h, api, quota: g.rng.range(1, 3) as u32, max_empty: g.rng.range(2, 10) as u32, after_end: 0 },
                    if g.rng.chance(1, 2) { Op::DropRecv { h } } else { Op::Unsub { h } },
                ];
                s.threads.push(ThreadSpec { handles: vec![h], prog, spawned: false });
                continue;
            }
            let mut prog = consume_until_end(&mut g.rng, h, uni && !fut, fut, true);
            // make sure the end is re-checked at least once
            if let Some(Op::Consume { after_end, .. }) = prog.last_mut() {
                *after_end = (*after_end).max(1);
            }
            s.threads.push(ThreadSpec { handles: vec![h], prog, spawned: false });
        }
    }
    if g.rng.chance(1, 4) {
        s.slow_clone = 1;
        s.slow_view = 1;
    }
    if fut && g.rng.chance(1, 2) {
        s.spurious_poll = 40;
    }
    common_faults(&mut g, &mut s);
    s.tags = common_tags(&s);
    let c = sched_for(&mut g.rng, &s, 40);
    (s, c)
}

/// `seq`: one simulated thread, a generated call sequence checked against the reference
/// model operation by operation (C09; also the sequential parts of C05, C13, C15, C17).
pub fn seq_family(seed: u64, name: &str, force_fut: Option<bool>, o: &crate::seq::SeqOpts) -> (Scenario, SchedCfg) {
    let mut g = Gen::new(seed);
    let flavour = pick_flavour(&mut g.rng);
    let fut = match force_fut {
        Some(f) => f,
        None => g.rng.chance(2, 5),
    };
    let cap = pick_cap(&mut g.rng);
    let mut q = if fut { fut_queue(&mut g.rng, flavour, cap) } else { plain_queue(&mut g.rng, flavour, cap) };
    if o.mpmc_second_stream {
        q.flavour = Flavour::Mpmc;
        q.fut = true;
        q.fut_spins = None;
    }
    let mut s = Scenario::new(name, q);
    let calls = crate::seq::gen_calls(&mut g.rng, &s.queue, o);
    s.seq = Some(calls);
    s.probe = false;
    s.final_drain = g.rng.chance(1, 3);
    s.teardown = match g.rng.below(3) {
        0 => Teardown::SendersFirst,
        1 => Teardown::ReceiversFirst,
        _ => Teardown::Mixed(g.rng.next() as u32),
    };
    common_faults(&mut g, &mut s);
    s.tags = common_tags(&s);
    let mut c = SchedCfg::new(g.rng.next(), Strategy::Uniform);
    c.livelock_window = 100_000;
    (s, c)
}

/// `norecv`: the last receiver's drop races senders that are retrying, spinning or parking
/// on a full queue (C13). Every send loop ends only when the send is refused as
/// Disconnected, so a run that cannot finish is a sender that hangs.
pub fn norecv(seed: u64) -> (Scenario, SchedCfg) {
    let mut g = Gen::new(seed);
    let flavour = pick_flavour(&mut g.rng);
    let fut = g.rng.chance(3, 5);
    let cap = *g.rng.pick(&[0u64, 1, 2, 2, 3]);
    let mut q = if fut { fut_queue(&mut g.rng, flavour, cap) } else { plain_queue(&mut g.rng, flavour, cap) };
    if fut && flavour == Flavour::Bcast {
        q.fut_spins = Some(*g.rng.pick(&[(0u32, 0u32), (0, 0), (1, 1), (50, 50)]));
    }
    let mut s = Scenario::new("norecv", q);
    let n = s.queue.capacity();
    // receivers: several streams, several handles per stream
    let ns = if flavour == Flavour::Bcast { g.rng.range(1, 3) } else { 1 };
    let mut recvs: Vec<u32> = vec![1];
    let mut heads: Vec<u32> = vec![1];
    for _ in 1..ns {
        let h = g.h();
        s.setup.push(Op::AddStream { h: 1, new: h });
        recvs.push(h);
        heads.push(h);
    }
    for &hd in &heads {
        if g.rng.chance(1, 2) && recvs.len() < 4 {
            let h = g.h();
            s.setup.push(Op::CloneRecv { h: hd, new: h });
            recvs.push(h);
        }
    }
    let np = g.rng.range(1, 2);
    let mut senders = vec![0u32];
    for _ in 1..np {
        let h = g.h();
        s.setup.push(Op::CloneSender { h: 0, new: h });
        senders.push(h);
    }
    for &h in &senders {
        let api = if fut && g.rng.chance(2, 3) { SendApi::Sink } else { SendApi::TrySend };
        // more values than the window: the sender is certain to hit a full queue
        s.threads.push(ThreadSpec {
            handles: vec![h],
            prog: vec![Op::Produce { h, n: (n + g.rng.range(2, 5)) as u32, api, max_retry: UNLIMITED }, Op::DropSender { h }],
            spawned: false,
        });
    }
    // every receiver leaves, after taking a few values or none
    let mut buckets: Vec<Vec<u32>> = vec![Vec::new(); g.rng.range(1, 2) as usize];
    for &h in &recvs {
        let b = g.rng.below(buckets.len() as u64) as usize;
        buckets[b].push(h);
    }
    for b in buckets {
        if b.is_empty() {
            continue;
        }
        let mut prog = Vec::new();
        for &h in &b {
            prog.push(Op::Yield(g.rng.range(0, 8) as u8));
            let take = g.rng.below(3) as u32;
            if take > 0 {
                let api = if fut && g.rng.chance(1, 2) { RecvApi::Poll } else { RecvApi::TryRecv };
                prog.push(Op::Consume { h, api, quota: take, max_empty: 3, after_end: 0 });
            }
            prog.push(if g.rng.chance(1, 2) { Op::Unsub { h } } else { Op::DropRecv { h } });
        }
        s.threads.push(ThreadSpec { handles: b, prog, spawned: false });
    }
    s.probe = false;
    s.final_drain = false;
    if fut && g.rng.chance(1, 3) {
        s.spurious_poll = 40;
    }
    common_faults(&mut g, &mut s);
    s.tags = common_tags(&s);
    let c = sched_for(&mut g.rng, &s, 50);
    (s, c)
}

/// `norecv.solo` (C18): every receiver leaves while the ring is full, and a sender performs
/// single try_send calls with every other thread frozen - possibly in the middle of the
/// last receiver's unsubscribe (stream unlinked, no-reader flag not yet raised). The call
/// must come back (Full or Disconnected) within a bounded number of its own steps.
pub fn norecv_solo(seed: u64) -> (Scenario, SchedCfg) {
    let mut g = Gen::new(seed);
    let flavour = pick_flavour(&mut g.rng);
    let cap = *g.rng.pick(&[0u64, 1, 2, 2, 3]);
    let mut q = plain_queue(&mut g.rng, flavour, cap);
    if let WaitK::Block(a, b) = q.wait {
        q.wait = if g.rng.chance(1, 2) { WaitK::Busy } else { WaitK::Yield(a, b) };
    }
    let mut s = Scenario::new("norecv.solo", q);
    let n = s.queue.capacity();
    let ns = if flavour == Flavour::Bcast { g.rng.range(1, 2) } else { 1 };
    let mut recvs: Vec<u32> = vec![1];
    for _ in 1..ns {
        let h = g.h();
        s.setup.push(Op::AddStream { h: 1, new: h });
        recvs.push(h);
    }
    if g.rng.chance(1, 2) {
        let h = g.h();
        s.setup.push(Op::CloneRecv { h: 1, new: h });
        recvs.push(h);
    }
    let np = g.rng.range(1, 2);
    let mut senders = vec![0u32];
    for _ in 1..np {
        let h = g.h();
        s.setup.push(Op::CloneSender { h: 0, new: h });
        senders.push(h);
    }
    for &h in &senders {
        // fill the ring (bounded retries), then single calls with everybody else frozen
        let mut prog = vec![Op::Produce { h, n: (n + 1) as u32, api: SendApi::TrySend, max_retry: 2 }];
        for _ in 0..g.rng.range(4, 10) {
            prog.push(Op::Yield(g.rng.range(0, 10) as u8));
            prog.push(Op::SoloTry { h, kind: TryKind::Send });
        }
        prog.push(Op::DropSender { h });
        s.threads.push(ThreadSpec { handles: vec![h], prog, spawned: false });
    }
    // every receiver leaves after taking at most one value, each from its own thread
    for &h in &recvs {
        let mut prog = vec![Op::Yield(g.rng.range(0, 20) as u8)];
        if g.rng.chance(1, 3) {
            prog.push(Op::Consume { h, api: RecvApi::TryRecv, quota: 1, max_empty: 1, after_end: 0 });
        }
        prog.push(if g.rng.chance(1, 2) { Op::Unsub { h } } else { Op::DropRecv { h } });
        s.threads.push(ThreadSpec { handles: vec![h], prog, spawned: false });
    }
    s.probe = false;
    s.final_drain = false;
    common_faults(&mut g, &mut s);
    s.tags = common_tags(&s);
    let c = sched_for(&mut g.rng, &s, 50);
    (s, c)
}

/// `teardown`: small concurrent scenarios whose last operations are handle drops, so the
/// scheduler decides whose drop is last and what is in flight when the queue destructor
/// runs: queue empty / full / partially consumed, streams at different positions, values
/// refused and handed back, consumers that leave in the middle of a stream (C05).
pub fn teardown(seed: u64) -> (Scenario, SchedCfg) {
    let mut g = Gen::new(seed);
    let flavour = pick_flavour(&mut g.rng);
    let fut = g.rng.chance(1, 3);
    let cap = pick_small_cap(&mut g.rng);
    let q = if fut { fut_queue(&mut g.rng, flavour, cap) } else { plain_queue(&mut g.rng, flavour, cap) };
    let mut s = Scenario::new("teardown", q);
    let n = s.queue.capacity();
    let np = g.rng.range(1, 2);
    let mut senders = vec![0u32];
    for _ in 1..np {
        let h = g.h();
        s.setup.push(Op::CloneSender { h: 0, new: h });
        senders.push(h);
    }
    let ns = if flavour == Flavour::Bcast { g.rng.range(1, 3) } else { 1 };
    let mut streams: Vec<Vec<u32>> = vec![vec![1]];
    for _ in 1..ns {
        let h = g.h();
        s.setup.push(Op::AddStream { h: 1, new: h });
        streams.push(vec![h]);
    }
    let mut total = ns;
    for st in streams.iter_mut() {
        if g.rng.chance(1, 2) && total < 4 {
            let h = g.h();
            s.setup.push(Op::CloneRecv { h: st[0], new: h });
            st.push(h);
            total += 1;
        }
    }
    for &h in &senders {
        let api = if fut && g.rng.chance(1, 2) { SendApi::Sink } else { SendApi::TrySend };
        let mut prog = vec![Op::Produce { h, n: g.rng.range(1, n + 4) as u32, api, max_retry: g.rng.range(0, 3) as u32 }];
        if g.rng.chance(2, 3) {
            prog.push(Op::DropSender { h });
        }
        s.threads.push(ThreadSpec { handles: vec![h], prog, spawned: false });
    }
    for st in &streams {
        let single = st.len() == 1;
        for &h in st {
            let uni = single && g.rng.chance(1, 2);
            if uni {
                s.setup.push(Op::IntoSingle { h });
            }
            let mut prog = Vec::new();
            let quota = g.rng.range(0, n + 2) as u32;
            if quota > 0 {
                let api = if fut {
                    *g.rng.pick(&[RecvApi::Poll, RecvApi::TryRecv])
                } else if uni {
                    *g.rng.pick(&[RecvApi::TryRecv, RecvApi::TryRecvView, RecvApi::TryIterWith, RecvApi::TryIter])
                } else {
                    *g.rng.pick(&[RecvApi::TryRecv, RecvApi::TryIter])
                };
                prog.push(Op::Consume { h, api, quota, max_empty: g.rng.range(0, 4) as u32, after_end: 0 });
            }
            match g.rng.below(4) {
                0 => prog.push(Op::DropRecv { h }),
                1 => prog.push(Op::Unsub { h }),
                _ => {}
            }
            s.threads.push(ThreadSpec { handles: vec![h], prog, spawned: false });
        }
    }
    s.probe = false;
    s.final_drain = false;
    s.teardown = match g.rng.below(3) {
        0 => Teardown::SendersFirst,
        1 => Teardown::ReceiversFirst,
        _ => Teardown::Mixed(g.rng.next() as u32),
    };
    if g.rng.chance(1, 3) {
        s.slow_clone = 1;
        s.slow_view = 1;
    }
    common_faults(&mut g, &mut s);
    s.tags = common_tags(&s);
    let c = sched_for(&mut g.rng, &s, 30);
    (s, c)
}

/// `addstream.sole` / `addstream.sibling` (C10). Broadcast only (plain and futures). Producers
/// keep sending and wrap the ring during the call; the new stream is handed to a freshly
/// spawned thread that drains it to the end. In `.sibling` another handle of the *parent*
/// stream keeps receiving concurrently with the call.
pub fn addstream(seed: u64, sibling: bool) -> (Scenario, SchedCfg) {
    let mut g = Gen::new(seed);
    let fut = g.rng.chance(1, 3);
    let cap = *g.rng.pick(&[0u64, 1, 2, 2, 3, 4]);
    let q = if fut { fut_queue(&mut g.rng, Flavour::Bcast, cap) } else { plain_queue(&mut g.rng, Flavour::Bcast, cap) };
    let mut s = Scenario::new(if sibling { "addstream.sibling" } else { "addstream.sole" }, q);
    let n = s.queue.capacity();
    // producers send several laps
    let np = g.rng.range(1, 2);
    let mut senders = vec![0u32];
    for _ in 1..np {
        let h = g.h();
        s.setup.push(Op::CloneSender { h: 0, new: h });
        senders.push(h);
    }
    let per = (2 * n + g.rng.range(2, 5)) / np + 1;
    for &h in &senders {
        let api = if fut && g.rng.chance(1, 2) { SendApi::Sink } else { SendApi::TrySend };
        s.threads.push(ThreadSpec {
            handles: vec![h],
            prog: vec![Op::Produce { h, n: per as u32, api, max_retry: UNLIMITED }, Op::DropSender { h }],
            spawned: false,
        });
    }
    // an independent stream with its own consumer (must be unaffected)
    let other = if g.rng.chance(2, 3) {
        let h = g.h();
        s.setup.push(Op::AddStream { h: 1, new: h });
        Some(h)
    } else {
        None
    };
    // the parent stream: handle 1, plus a sibling handle in the hazardous sub-family
    let sib = if sibling {
        let h = g.h();
        s.setup.push(Op::CloneRecv { h: 1, new: h });
        Some(h)
    } else {
        None
    };
    // number of add_stream calls made by the parent's thread
    let adds = g.rng.range(1, 2);
    let uni_parent = fut && !sibling && g.rng.chance(1, 2);
    if uni_parent {
        s.setup.push(Op::IntoSingle { h: 1 });
    }
    let mut prog = Vec::new();
    let first_thread = s.threads.len();
    let mut spawned_specs: Vec<ThreadSpec> = Vec::new();
    let parent_thread_idx = first_thread;
    let mut next_spawn_idx = parent_thread_idx + 1 + if other.is_some() { 1 } else { 0 } + if sib.is_some() { 1 } else { 0 };
    let api_for = |g: &mut Gen| if fut { RecvApi::Poll } else { *g.rng.pick(&[RecvApi::TryRecv, RecvApi::Recv]) };
    for _ in 0..adds {
        let k = g.rng.range(0, n + 1) as u32;
        if k > 0 {
            let api = if fut { RecvApi::TryRecv } else { RecvApi::TryRecv };
            prog.push(Op::Consume { h: 1, api, quota: k, max_empty: UNLIMITED, after_end: 0 });
        }
        let new = g.h();
        prog.push(Op::AddStream { h: 1, new });
        prog.push(Op::Spawn { thread: next_spawn_idx as u32, give: vec![new] });
        let mut p2 = Vec::new();
        if uni_parent && g.rng.chance(1, 3) {
            p2.push(Op::Transform { h: new });
        }
        let a = api_for(&mut g);
        p2.push(Op::Consume { h: new, api: a, quota: UNLIMITED, max_empty: UNLIMITED, after_end: 0 });
        spawned_specs.push(ThreadSpec { handles: vec![], prog: p2, spawned: true });
        next_spawn_idx += 1;
    }
    let a = api_for(&mut g);
    prog.push(Op::Consume { h: 1, api: a, quota: UNLIMITED, max_empty: UNLIMITED, after_end: 0 });
    s.threads.push(ThreadSpec { handles: vec![1], prog, spawned: false });
    if let Some(h) = other {
        let mut prog = Vec::new();
        // a second caller racing the first one (CAS retry path in add_stream)
        if g.rng.chance(1, 2) {
            let new = g.h();
            prog.push(Op::AddStream { h, new });
            prog.push(Op::DropRecv { h: new });
        }
        let a = api_for(&mut g);
        prog.push(Op::Consume { h, api: a, quota: UNLIMITED, max_empty: UNLIMITED, after_end: 0 });
        s.threads.push(ThreadSpec { handles: vec![h], prog, spawned: false });
    }
    if let Some(h) = sib {
        let a = api_for(&mut g);
        s.threads.push(ThreadSpec {
            handles: vec![h],
            prog: vec![Op::Consume { h, api: a, quota: UNLIMITED, max_empty: UNLIMITED, after_end: 0 }],
            spawned: false,
        });
    }
    s.threads.extend(spawned_specs);
    if g.rng.chance(1, 4) {
        s.slow_clone = 1;
    }
    if fut && g.rng.chance(1, 3) {
        s.spurious_poll = 40;
    }
    // stalls anchored at the snapshot inside add_stream: the window between the position
    // snapshot and the publishing CAS is where the call can go wrong
    if g.rng.chance(1, 2) {
        s.trap = Some((rt_probe::ADD_STREAM_SNAPSHOT, g.rng.below(2) as u32, g.rng.range(20, 400) as u32));
    }
    common_faults(&mut g, &mut s);
    s.tags = common_tags(&s);
    let c = sched_for(&mut g.rng, &s, 50);
    (s, c)
}

pub mod rt_probe {
    pub const ADD_STREAM_SNAPSHOT: u32 = 12;
    pub const REMOVE_READER_UNLINKED: u32 = 14;
    pub const CLAIMED_BEFORE_PUBLISH: u32 = 11;
    pub const CLONE_MID: u32 = 15;
    pub const VIEW_MID: u32 = 16;
    pub const RAW_DEREF: u32 = 24;
}

/// `removal` (C11): a slow or idle stream drives the queue to Full; its handles are then
/// dropped / unsubscribed (last and non-last handle) while producers retry in a loop and
/// the other streams keep receiving.
pub fn removal(seed: u64) -> (Scenario, SchedCfg) {
    let mut g = Gen::new(seed);
    let fut = g.rng.chance(1, 3);
    let cap = *g.rng.pick(&[0u64, 1, 2, 2, 3, 4]);
    let q = if fut { fut_queue(&mut g.rng, Flavour::Bcast, cap) } else { plain_queue(&mut g.rng, Flavour::Bcast, cap) };
    let mut s = Scenario::new("removal", q);
    let n = s.queue.capacity();
    let np = g.rng.range(1, 2);
    let mut senders = vec![0u32];
    for _ in 1..np {
        let h = g.h();
        s.setup.push(Op::CloneSender { h: 0, new: h });
        senders.push(h);
    }
    let per = (2 * n + g.rng.range(2, 5)) / np + 1;
    for &h in &senders {
        let api = if fut && g.rng.chance(1, 2) { SendApi::Sink } else { SendApi::TrySend };
        s.threads.push(ThreadSpec {
            handles: vec![h],
            prog: vec![Op::Produce { h, n: per as u32, api, max_retry: UNLIMITED }, Op::DropSender { h }],
            spawned: false,
        });
    }
    // victim stream(s): 1-2 handles each, leave after taking at most a few values
    let nv = g.rng.range(1, 2);
    let keep_main = g.rng.chance(3, 4); // stream 0 stays and drains to the end
    let mut victims: Vec<Vec<u32>> = Vec::new();
    for _ in 0..nv {
        let h = g.h();
        s.setup.push(Op::AddStream { h: 1, new: h });
        let mut v = vec![h];
        if g.rng.chance(1, 2) {
            let c = g.h();
            s.setup.push(Op::CloneRecv { h, new: c });
            v.push(c);
        }
        victims.push(v);
    }
    if keep_main {
        let uni = !fut && g.rng.chance(1, 3);
        if uni {
            s.setup.push(Op::IntoSingle { h: 1 });
        }
        let mut prog = Vec::new();
        if fut && g.rng.chance(1, 3) {
            // conversions that replace the stream under traffic: into_single (clone + drop),
            // transform_operation and into_multi (add a stream, drop the old one)
            prog.push(Op::Consume { h: 1, api: RecvApi::Poll, quota: 1, max_empty: 3, after_end: 0 });
            prog.push(Op::IntoSingle { h: 1 });
            if g.rng.chance(1, 2) {
                prog.push(Op::Transform { h: 1 });
            }
            prog.push(Op::Consume { h: 1, api: RecvApi::Poll, quota: 1, max_empty: 3, after_end: 0 });
            prog.push(Op::IntoMulti { h: 1 });
        }
        prog.extend(consume_until_end(&mut g.rng, 1, uni, fut, true));
        s.threads.push(ThreadSpec { handles: vec![1], prog, spawned: false });
    } else {
        // stream 0 is a victim too, but at least one stream must survive: keep the last victim
        let mut prog = vec![Op::Yield(g.rng.range(0, 10) as u8)];
        prog.push(if g.rng.chance(1, 2) { Op::Unsub { h: 1 } } else { Op::DropRecv { h: 1 } });
        s.threads.push(ThreadSpec { handles: vec![1], prog, spawned: false });
    }
    let last = victims.len() - 1;
    for (i, v) in victims.iter().enumerate() {
        let survivor = !keep_main && i == last;
        let separate = v.len() == 2 && g.rng.chance(1, 2);
        let mut progs: Vec<(Vec<u32>, Vec<Op>)> = if separate { vec![(vec![v[0]], Vec::new()), (vec![v[1]], Vec::new())] } else { vec![(v.clone(), Vec::new())] };
        for (hs, prog) in progs.iter_mut() {
            for (j, &h) in hs.clone().iter().enumerate() {
                prog.push(Op::Yield(g.rng.range(0, 12) as u8));
                let take = g.rng.below(3) as u32;
                if take > 0 {
                    let api = if fut && g.rng.chance(1, 2) { RecvApi::Poll } else { RecvApi::TryRecv };
                    prog.push(Op::Consume { h, api, quota: take, max_empty: 4, after_end: 0 });
                }
                if survivor && j + 1 == hs.len() && !(separate && h == v[0]) {
                    // this handle stays and drains to the end
                    let a = if fut { RecvApi::Poll } else { RecvApi::TryRecv };
                    prog.push(Op::Consume { h, api: a, quota: UNLIMITED, max_empty: UNLIMITED, after_end: 0 });
                } else {
                    prog.push(if g.rng.chance(1, 2) { Op::Unsub { h } } else { Op::DropRecv { h } });
                }
            }
        }
        for (hs, prog) in progs {
            s.threads.push(ThreadSpec { handles: hs, prog, spawned: false });
        }
    }
    if g.rng.chance(1, 2) {
        s.trap = Some((rt_probe::REMOVE_READER_UNLINKED, 0, g.rng.range(20, 300) as u32));
    }
    if fut && g.rng.chance(1, 3) {
        s.spurious_poll = 40;
    }
    common_faults(&mut g, &mut s);
    s.tags = common_tags(&s);
    let c = sched_for(&mut g.rng, &s, 50);
    (s, c)
}

/// `churn` (C12): the number of live senders moves 1->2->1 and the consumers of a stream
/// 1->2->1 (clone, drop, unsubscribe, into_single / into_multi) while other handles are in
/// the middle of operations; clones are handed to freshly spawned threads.
pub fn churn(seed: u64) -> (Scenario, SchedCfg) {
    let mut g = Gen::new(seed);
    let flavour = pick_flavour(&mut g.rng);
    let fut = g.rng.chance(1, 4);
    let cap = pick_small_cap(&mut g.rng);
    let q = if fut { fut_queue(&mut g.rng, flavour, cap) } else { plain_queue(&mut g.rng, flavour, cap) };
    let mut s = Scenario::new("churn", q);
    let ns = if flavour == Flavour::Bcast { g.rng.range(1, 2) } else { 1 };
    let mut heads = vec![1u32];
    for _ in 1..ns {
        let h = g.h();
        s.setup.push(Op::AddStream { h: 1, new: h });
        heads.push(h);
    }
    let mut spawned: Vec<ThreadSpec> = Vec::new();
    // twin leavers: one more stream with two handles, each owned by its own thread, both of
    // which let go of it at some moment during the traffic (consumer count 2 -> 0: exactly
    // one of the two drops must unlink the stream, or it limits the senders for ever)
    let twins: Option<(u32, u32)> = if flavour == Flavour::Bcast && g.rng.chance(1, 3) {
        let t1 = g.h();
        let t2 = g.h();
        s.setup.push(Op::AddStream { h: 1, new: t1 });
        s.setup.push(Op::CloneRecv { h: t1, new: t2 });
        Some((t1, t2))
    } else {
        None
    };
    let n_main_threads = 1 + heads.len() + if twins.is_some() { 2 } else { 0 };
    let mut next_spawn = n_main_threads;
    let sapi = |g: &mut Gen| if fut && g.rng.chance(1, 2) { SendApi::Sink } else { SendApi::TrySend };
    // the producer thread: sends, clones itself, hands the clone to a new thread, goes on
    {
        let mut prog = Vec::new();
        let rounds = g.rng.range(1, 3);
        for _ in 0..rounds {
            let a = sapi(&mut g);
            prog.push(Op::Produce { h: 0, n: g.rng.range(1, 4) as u32, api: a, max_retry: UNLIMITED });
            let c = g.h();
            prog.push(Op::CloneSender { h: 0, new: c });
            match g.rng.below(3) {
                0 => prog.push(Op::DropSender { h: c }),
                1 => {
                    let a = sapi(&mut g);
                    prog.push(Op::Produce { h: c, n: g.rng.range(1, 3) as u32, api: a, max_retry: UNLIMITED });
                    prog.push(Op::DropSender { h: c });
                }
                _ => {
                    prog.push(Op::Spawn { thread: next_spawn as u32, give: vec![c] });
                    let a = sapi(&mut g);
                    spawned.push(ThreadSpec {
                        handles: vec![],
                        prog: vec![Op::Produce { h: c, n: g.rng.range(1, 4) as u32, api: a, max_retry: UNLIMITED }, Op::DropSender { h: c }],
                        spawned: true,
                    });
                    next_spawn += 1;
                }
            }
        }
        let a = sapi(&mut g);
        prog.push(Op::Produce { h: 0, n: g.rng.range(1, 3) as u32, api: a, max_retry: UNLIMITED });
        prog.push(Op::DropSender { h: 0 });
        s.threads.push(ThreadSpec { handles: vec![0], prog, spawned: false });
    }
    // one consumer thread per stream: receives, clones itself, hands the clone away, converts
    for &h in &heads {
        let mut prog = Vec::new();
        let rounds = g.rng.range(1, 3);
        let mut is_uni = false;
        for _ in 0..rounds {
            let k = g.rng.range(0, 2) as u32;
            if k > 0 {
                let api = if fut { RecvApi::TryRecv } else { *g.rng.pick(&[RecvApi::TryRecv, RecvApi::TryIter]) };
                prog.push(Op::Consume { h, api, quota: k, max_empty: 6, after_end: 0 });
            }
            if is_uni {
                prog.push(Op::IntoMulti { h });
                is_uni = false;
            }
            let c = g.h();
            prog.push(Op::CloneRecv { h, new: c });
            match g.rng.below(3) {
                0 => prog.push(if g.rng.chance(1, 2) { Op::DropRecv { h: c } } else { Op::Unsub { h: c } }),
                1 => {
                    prog.push(Op::Consume { h: c, api: RecvApi::TryRecv, quota: g.rng.range(1, 2) as u32, max_empty: 4, after_end: 0 });
                    prog.push(Op::DropRecv { h: c });
                    // sole consumer again: the single-consumer fast path may be taken (for
                    // futures handles the conversion itself clones and drops, and into_multi
                    // adds a stream and drops the old one)
                    if g.rng.chance(1, 2) {
                        prog.push(Op::IntoSingle { h });
                        is_uni = true;
                        if fut && g.rng.chance(1, 3) {
                            prog.push(Op::Transform { h });
                        }
                    }
                }
                _ => {
                    prog.push(Op::Spawn { thread: next_spawn as u32, give: vec![c] });
                    let api = if fut && g.rng.chance(1, 2) { RecvApi::Poll } else { RecvApi::TryRecv };
                    spawned.push(ThreadSpec {
                        handles: vec![],
                        prog: vec![
                            Op::Consume { h: c, api, quota: g.rng.range(1, 3) as u32, max_empty: 8, after_end: 0 },
                            if g.rng.chance(1, 2) { Op::DropRecv { h: c } } else { Op::Unsub { h: c } },
                        ],
                        spawned: true,
                    });
                    next_spawn += 1;
                }
            }
        }
        let fin = if fut {
            RecvApi::Poll
        } else if is_uni {
            *g.rng.pick(&[RecvApi::TryRecvView, RecvApi::RecvView, RecvApi::TryRecv])
        } else {
            *g.rng.pick(&[RecvApi::TryRecv, RecvApi::Recv])
        };
        prog.push(Op::Consume { h, api: fin, quota: UNLIMITED, max_empty: UNLIMITED, after_end: 1 });
        s.threads.push(ThreadSpec { handles: vec![h], prog, spawned: false });
    }
    if let Some((t1, t2)) = twins {
        for h in [t1, t2] {
            let mut prog = vec![Op::Yield(g.rng.range(0, 12) as u8)];
            if g.rng.chance(1, 2) {
                prog.push(Op::Consume { h, api: RecvApi::TryRecv, quota: 1, max_empty: 2, after_end: 0 });
            }
            prog.push(if g.rng.chance(1, 2) { Op::DropRecv { h } } else { Op::Unsub { h } });
            s.threads.push(ThreadSpec { handles: vec![h], prog, spawned: false });
        }
    }
    s.threads.extend(spawned);
    if g.rng.chance(1, 4) {
        s.slow_clone = 1;
        s.slow_view = 1;
    }
    if g.rng.chance(3, 10) {
        s.weak_cas_rate = 2500;
    }
    if fut && g.rng.chance(1, 3) {
        s.spurious_poll = 40;
    }
    common_faults(&mut g, &mut s);
    s.tags = common_tags(&s);
    let c = sched_for(&mut g.rng, &s, 40);
    (s, c)
}

/// `reclaim` (C16, C17): churners repeat add_stream/drop, clone/drop and conversions often
/// enough for reclamation cycles to start and complete repeatedly, while writers keep
/// scanning the stream list (N = 1 or 2: the full test fires on every send) and idle
/// handles never operate.
pub fn reclaim(seed: u64, counting: bool) -> (Scenario, SchedCfg) {
    reclaim2(seed, counting, false)
}

/// `reclaim.solo` (C18): the same churn (so that reclamation cycles start and tokens go
/// stale) on a busy / yielding queue, plus threads that perform single try operations with
/// every other thread frozen - possibly in the middle of get_token / remove_token / free.
pub fn reclaim_solo(seed: u64) -> (Scenario, SchedCfg) {
    reclaim2(seed, false, true)
}

fn reclaim2(seed: u64, counting: bool, solo: bool) -> (Scenario, SchedCfg) {
    let mut g = Gen::new(seed);
    let flavour = if g.rng.chance(3, 4) { Flavour::Bcast } else { Flavour::Mpmc };
    let fut = g.rng.chance(1, 4);
    let cap = *g.rng.pick(&[0u64, 1, 2, 2]);
    let q = if fut { fut_queue(&mut g.rng, flavour, cap) } else { plain_queue(&mut g.rng, flavour, cap) };
    let mut q = q;
    if solo {
        q.fut = false;
        q.fut_spins = None;
        if let WaitK::Block(a, b) = q.wait {
            q.wait = if g.rng.chance(1, 2) { WaitK::Busy } else { WaitK::Yield(a, b) };
        }
    }
    let fut = q.fut;
    let mut s = Scenario::new(if solo { "reclaim.solo" } else if counting { "reclaim.count" } else { "reclaim" }, q);
    s.quarantine = !counting && !solo;
    // idle handles that never operate (held by main until teardown); in counting mode the
    // property only speaks about handles that keep operating
    let mut idle_sender: Option<u32> = None;
    if !counting && g.rng.chance(1, 2) {
        let h = g.h();
        s.setup.push(Op::CloneSender { h: 0, new: h });
        idle_sender = Some(h);
        if g.rng.chance(1, 2) {
            let r = g.h();
            s.setup.push(Op::CloneRecv { h: 1, new: r });
        }
    }
    let bc = flavour == Flavour::Bcast;
    // churner streams / handles
    let n_churn = g.rng.range(1, 3);
    let mut churn_heads = Vec::new();
    for _ in 0..n_churn {
        if bc {
            let h = g.h();
            s.setup.push(Op::AddStream { h: 1, new: h });
            churn_heads.push(h);
        } else {
            let h = g.h();
            s.setup.push(Op::CloneRecv { h: 1, new: h });
            churn_heads.push(h);
        }
    }
    // writer
    let total = g.rng.range(6, 14) as u32;
    s.threads.push(ThreadSpec {
        handles: vec![0],
        prog: vec![Op::Produce { h: 0, n: total, api: SendApi::TrySend, max_retry: UNLIMITED }, Op::Signal(0), Op::DropSender { h: 0 }],
        spawned: false,
    });
    if let Some(h) = idle_sender {
        // the idle handle never operates; main lets go of it once the writer is done so
        // that the streams can end
        s.main_prog.push(Op::Await(0));
        s.main_prog.push(Op::DropSender { h });
    }
    // the main consumer drains to the end (in counting mode through an entry point that
    // keeps operating instead of sleeping: a handle blocked inside recv does not refresh its
    // epoch token, and the property only speaks about handles that keep operating)
    {
        let a = if counting {
            RecvApi::TryRecv
        } else if fut {
            RecvApi::Poll
        } else {
            *g.rng.pick(&[RecvApi::TryRecv, RecvApi::Recv])
        };
        let mut prog = vec![Op::Consume { h: 1, api: a, quota: UNLIMITED, max_empty: UNLIMITED, after_end: 0 }];
        if counting {
            // a handle that is done must go away: kept alive but idle it would hold its
            // epoch token back, and the property only speaks about handles that operate
            prog.push(Op::DropRecv { h: 1 });
        }
        s.threads.push(ThreadSpec { handles: vec![1], prog, spawned: false });
    }
    for &h in &churn_heads {
        let times = g.rng.range(8, 40) as u32;
        let mut body = Vec::new();
        let a = g.h();
        match g.rng.below(if bc { 4 } else { 2 }) {
            0 => {
                body.push(Op::CloneRecv { h, new: a });
                body.push(if g.rng.chance(1, 2) { Op::DropRecv { h: a } } else { Op::Unsub { h: a } });
            }
            1 => {
                body.push(Op::CloneRecv { h, new: a });
                body.push(Op::Consume { h: a, api: RecvApi::TryRecv, quota: 1, max_empty: 0, after_end: 0 });
                body.push(Op::DropRecv { h: a });
            }
            2 => {
                body.push(Op::AddStream { h, new: a });
                body.push(Op::DropRecv { h: a });
            }
            _ => {
                body.push(Op::AddStream { h, new: a });
                body.push(Op::Consume { h: a, api: RecvApi::TryRecv, quota: 1, max_empty: 0, after_end: 0 });
                body.push(Op::Unsub { h: a });
            }
        }
        // the churner keeps its own stream moving so that it never blocks the writer for long
        body.push(Op::Consume { h, api: RecvApi::TryRecv, quota: 2, max_empty: 0, after_end: 0 });
        if counting {
            body.push(Op::Sample);
        }
        let fin = if fut && !counting { RecvApi::Poll } else { RecvApi::TryRecv };
        s.threads.push(ThreadSpec {
            handles: vec![h],
            prog: if counting {
                vec![Op::Repeat { times, body }, Op::Consume { h, api: fin, quota: UNLIMITED, max_empty: UNLIMITED, after_end: 0 }, Op::DropRecv { h }]
            } else {
                vec![Op::Repeat { times, body }, Op::Consume { h, api: fin, quota: UNLIMITED, max_empty: UNLIMITED, after_end: 0 }]
            },
            spawned: false,
        });
    }
    if solo {
        // single try operations with everybody else frozen, spread over the churn
        let hr = g.h();
        if bc {
            s.setup.push(Op::AddStream { h: 1, new: hr });
        } else {
            s.setup.push(Op::CloneRecv { h: 1, new: hr });
        }
        let mut prog = Vec::new();
        for _ in 0..g.rng.range(3, 8) {
            prog.push(Op::Yield(g.rng.range(0, 12) as u8));
            prog.push(Op::SoloTry { h: hr, kind: TryKind::Recv });
        }
        prog.push(Op::Consume { h: hr, api: RecvApi::TryRecv, quota: UNLIMITED, max_empty: UNLIMITED, after_end: 0 });
        s.threads.push(ThreadSpec { handles: vec![hr], prog, spawned: false });
        let hs2 = g.h();
        s.setup.insert(0, Op::CloneSender { h: 0, new: hs2 });
        let mut prog = Vec::new();
        for _ in 0..g.rng.range(3, 8) {
            prog.push(Op::Yield(g.rng.range(0, 12) as u8));
            prog.push(Op::SoloTry { h: hs2, kind: TryKind::Send });
        }
        prog.push(Op::DropSender { h: hs2 });
        s.threads.push(ThreadSpec { handles: vec![hs2], prog, spawned: false });
    }
    // a sender churner (token churn)
    if g.rng.chance(1, 2) {
        let hs = g.h();
        s.setup.insert(0, Op::CloneSender { h: 0, new: hs });
        let c = g.h();
        s.threads.push(ThreadSpec {
            handles: vec![hs],
            prog: vec![
                Op::Repeat {
                    times: g.rng.range(6, 24) as u32,
                    body: if counting {
                        // the churning sender also operates in every cycle
                        vec![Op::CloneSender { h: hs, new: c }, Op::DropSender { h: c }, Op::Produce { h: hs, n: 1, api: SendApi::TrySend, max_retry: 0 }]
                    } else {
                        vec![Op::CloneSender { h: hs, new: c }, Op::DropSender { h: c }]
                    },
                },
                Op::DropSender { h: hs },
            ],
            spawned: false,
        });
    }
    s.probe = false;
    if !counting && !solo && bc && g.rng.chance(1, 2) {
        // a leaver: a thread that owns nothing but the sole handle of one more stream and
        // lets go of it while the churn is running; stalled for a long time right before one
        // of the raw dereferences of the stream list inside its unsubscribe
        let l = g.h();
        s.setup.push(Op::AddStream { h: 1, new: l });
        let mut prog = vec![Op::Yield(g.rng.range(0, 30) as u8)];
        if g.rng.chance(1, 2) {
            prog.push(Op::Consume { h: l, api: RecvApi::TryRecv, quota: 1, max_empty: 0, after_end: 0 });
        }
        prog.push(if g.rng.chance(1, 2) { Op::DropRecv { h: l } } else { Op::Unsub { h: l } });
        s.threads.push(ThreadSpec { handles: vec![l], prog, spawned: false });
        if g.rng.chance(2, 3) {
            s.trap = Some((rt_probe::RAW_DEREF, g.rng.below(3) as u32, g.rng.range(300, 6000) as u32));
            s.trap_thread = Some(s.threads.len() as u32 - 1);
        }
    }
    if s.trap.is_none() && !counting && !solo && g.rng.chance(1, 3) {
        // a long stall right before a raw dereference of the stream list (between loading
        // the pointer and reading through it): long enough for a whole reclamation cycle
        s.trap = Some((rt_probe::RAW_DEREF, g.rng.below(60) as u32, g.rng.range(100, 4000) as u32));
    }
    common_faults(&mut g, &mut s);
    if counting {
        // a stalled thread keeps a stale epoch token and legitimately holds reclamation back
        s.trap = None;
    }
    s.tags = common_tags(&s);
    let mut c = if counting {
        // a thread that is stalled or starved keeps a stale epoch token and legitimately
        // holds reclamation back; the growth oracle needs every handle to keep operating
        SchedCfg::new(g.rng.next(), Strategy::Uniform)
    } else {
        sched_for(&mut g.rng, &s, 50)
    };
    c.max_steps = 4_000_000;
    (s, c)
}

/// `seq.churn` (C17): a fixed set of handles stays alive and every one of them performs an
/// operation in every cycle, while each cycle also does add_stream/drop, clone/drop and
/// into_single/into_multi; optionally a non-last handle of a stream was dropped earlier.
pub fn seq_churn(seed: u64, long_ok: bool) -> (Scenario, SchedCfg) {
    use crate::seq::SeqCall as C;
    let mut g = Gen::new(seed);
    let flavour = pick_flavour(&mut g.rng);
    let fut = g.rng.chance(1, 4);
    let cap = pick_cap(&mut g.rng);
    let q = if fut { fut_queue(&mut g.rng, flavour, cap) } else { plain_queue(&mut g.rng, flavour, cap) };
    let mut s = Scenario::new("seq.churn", q);
    let bc = flavour == Flavour::Bcast;
    let mut calls = Vec::new();
    // fixed handles: sender 0 (+ clone 2), receiver 1 (+ maybe a second stream 3)
    let two_senders = g.rng.chance(1, 2);
    if two_senders {
        calls.push(C::CloneSender { h: 0, new: 2 });
    }
    let second_stream = bc && g.rng.chance(1, 2);
    if second_stream {
        calls.push(C::AddStream { h: 1, new: 3 });
    }
    // with an earlier drop of a non-last handle of a stream
    let early_drop = g.rng.chance(1, 2);
    if early_drop {
        calls.push(C::CloneRecv { h: 1, new: 4 });
        calls.push(C::DropRecv { h: 4 });
    }
    // one side gone for good before the cycles start: the surviving side keeps operating
    // (every call reports Disconnected) and keeps cloning / dropping handles
    let side_gone = match g.rng.below(8) {
        0 => 1, // no receiver left
        1 => 2, // no sender left
        _ => 0,
    };
    if side_gone == 1 {
        calls.push(C::TrySend { h: 0 });
        calls.push(C::DropRecv { h: 1 });
        if second_stream {
            calls.push(C::DropRecv { h: 3 });
        }
    } else if side_gone == 2 {
        calls.push(C::TrySend { h: 0 });
        if two_senders {
            calls.push(C::DropSender { h: 2 });
        }
        calls.push(C::DropSender { h: 0 });
    }
    let mut body = Vec::new();
    // every fixed handle operates in every cycle
    if side_gone != 2 {
        body.push(C::TrySend { h: 0 });
        if two_senders {
            body.push(C::TrySend { h: 2 });
        }
    }
    // the entry point each fixed receiver operates through (each has its own call to the
    // signal / epoch announcement); a plain main receiver may be a single-consumer handle
    let uni_main = !early_drop && g.rng.chance(1, 4);
    if uni_main {
        calls.push(C::IntoSingle { h: 1 });
    }
    let pick_recv = |g: &mut Gen, h: u32, uni: bool| -> C {
        let mut ks = vec![C::TryRecv { h }, C::TryRecv { h }, C::Recv { h }];
        if uni {
            ks.push(C::TryRecvView { h });
            ks.push(C::RecvView { h });
            ks.push(C::TryIterNext { h, with: true });
        } else {
            ks.push(C::TryIterNext { h, with: false });
        }
        if fut {
            ks = vec![C::TryRecv { h }, C::Recv { h }, C::Poll { h }, C::Poll { h }];
        }
        g.rng.pick(&ks).clone()
    };
    if side_gone != 1 {
        let k1 = pick_recv(&mut g, 1, uni_main);
        body.push(k1.clone());
        body.push(k1);
        if second_stream {
            let k3 = pick_recv(&mut g, 3, false);
            body.push(k3.clone());
            body.push(k3);
        }
    }
    // churn
    let mut kinds = g.rng.range(1, 7);
    if side_gone == 1 {
        kinds = 4;
    } else if side_gone == 2 {
        kinds &= 3;
        if kinds == 0 || (!bc && kinds == 2) {
            kinds = 1;
        }
    }
    if uni_main {
        // a single-consumer handle can be neither cloned nor forked: churn on the second
        // stream and on the senders only
        kinds &= 4;
        if second_stream {
            body.push(C::CloneRecv { h: 3, new: 10 });
            body.push(C::DropRecv { h: 10 });
            body.push(C::AddStream { h: 3, new: 11 });
            body.push(C::DropRecv { h: 11 });
        } else {
            kinds = 4;
        }
    }
    if kinds & 1 != 0 {
        body.push(C::CloneRecv { h: 1, new: 10 });
        body.push(if g.rng.chance(1, 2) { C::DropRecv { h: 10 } } else { C::Unsub { h: 10 } });
    }
    if kinds & 2 != 0 && (bc || false) {
        body.push(C::AddStream { h: 1, new: 11 });
        body.push(C::DropRecv { h: 11 });
    }
    if kinds & 4 != 0 {
        body.push(C::CloneSender { h: 0, new: 12 });
        body.push(C::DropSender { h: 12 });
    }
    if !fut && !uni_main && g.rng.chance(1, 2) && side_gone != 1 {
        body.push(C::IntoSingle { h: 1 });
        body.push(C::IntoMulti { h: 1 });
    }
    body.push(C::Sample { cycle: u32::MAX });
    // 10^2 .. 10^5 cycles; the long histories only in the thorough tier (run indices beyond
    // the quick tier's range)
    let mut times = *g.rng.pick(&[100u32, 100, 200, 400, 800]);
    if long_ok {
        if g.rng.chance(1, 150) {
            times = 10_000;
        } else if g.rng.chance(1, 2500) {
            times = 100_000;
        }
    }
    calls.push(C::Repeat { times, body });
    s.seq = Some(calls);
    s.probe = false;
    s.final_drain = false;
    s.teardown = Teardown::Mixed(g.rng.next() as u32);
    common_faults(&mut g, &mut s);
    s.tags = common_tags(&s);
    s.tags.push(if early_drop { "early_drop_of_non_last_handle".into() } else { "no_early_drop".into() });
    if uni_main {
        s.tags.push("uni_main".into());
    }
    s.tags.push(match side_gone {
        1 => "side_gone=receivers".into(),
        2 => "side_gone=senders".into(),
        _ => "side_gone=none".into(),
    });
    let mut c = SchedCfg::new(g.rng.next(), Strategy::Uniform);
    c.livelock_window = 100_000;
    c.max_steps = 400_000_000;
    (s, c)
}

/// `seq.sweep` (C09): exhaustive enumeration of all call sequences of a fixed depth over a
/// 13-letter alphabet, on all four handle families and two capacities. `index` selects
/// (configuration, sequence); `depth` letters are the base-13 digits of the sequence number.
pub const SWEEP_ALPHABET: u64 = 13;
pub const SWEEP_CONFIGS: u64 = 8;
pub fn sweep_total(depth: u32) -> u64 {
    SWEEP_ALPHABET.pow(depth) * SWEEP_CONFIGS
}
pub fn seq_sweep(index: u64, depth: u32) -> (Scenario, SchedCfg) {
    use crate::seq::SeqCall as C;
    let per = SWEEP_ALPHABET.pow(depth);
    let cfg = index / per;
    let mut code = index % per;
    let flavour = if cfg & 1 == 0 { Flavour::Bcast } else { Flavour::Mpmc };
    let fut = cfg & 2 != 0;
    let cap = if cfg & 4 == 0 { 1 } else { 2 };
    let q = QueueCfg {
        flavour,
        fut,
        cap_req: cap,
        wait: WaitK::Busy,
        fut_spins: if fut && flavour == Flavour::Bcast { Some((0, 0)) } else { None },
    };
    let mut s = Scenario::new("seq.sweep", q);
    let bc = flavour == Flavour::Bcast;
    let mut calls = Vec::new();
    for _ in 0..depth {
        let letter = code % SWEEP_ALPHABET;
        code /= SWEEP_ALPHABET;
        calls.push(match letter {
            0 => C::TrySend { h: 0 },
            1 => C::TryRecv { h: 1 },
            2 => C::CloneSender { h: 0, new: 4 },
            3 => C::TrySend { h: 4 },
            4 => C::DropSender { h: 0 },
            5 => {
                if bc {
                    C::AddStream { h: 1, new: 2 }
                } else {
                    C::CloneRecv { h: 1, new: 2 }
                }
            }
            6 => C::TryRecv { h: 2 },
            7 => C::Unsub { h: 2 },
            8 => C::IntoSingle { h: 1 },
            9 => {
                if fut {
                    C::Poll { h: 1 }
                } else {
                    C::TryRecvView { h: 1 }
                }
            }
            10 => C::IntoMulti { h: 1 },
            11 => C::DropRecv { h: 1 },
            _ => {
                if fut {
                    C::StartSend { h: 0 }
                } else {
                    C::TryIterNext { h: 1, with: false }
                }
            }
        });
    }
    s.seq = Some(calls);
    s.probe = false;
    s.final_drain = false;
    s.teardown = if index & 1 == 0 { Teardown::SendersFirst } else { Teardown::ReceiversFirst };
    s.tags = common_tags(&s);
    s.tags.push(format!("sweep_depth={}", depth));
    let mut c = SchedCfg::new(index, Strategy::Uniform);
    c.livelock_window = 100_000;
    (s, c)
}
