//! Parent process of a check: forks workers, merges their reports in run-index order,
//! resamples for determinism, minimises the first violation, consults the known-findings
//! file, writes the evidence file and decides the exit status.

use crate::json::{self, J};
use crate::minimise;
use crate::props;
use multiqueue2_verif_rt as rt;
use std::collections::{BTreeMap, HashMap, HashSet};
use std::io::Read;
use std::process::{Command, Stdio};
use std::time::{Duration, Instant};

pub const DEFAULT_SEED: u64 = 20_261_001;
fn verif_root() -> String {
    std::env::var("VERIF_ROOT").unwrap_or_else(|_| "/verif".to_string())
}

pub struct CheckArgs {
    pub prop: String,
    pub thorough: bool,
    pub seed: u64,
    pub workers: u64,
    pub runs: Option<u64>,
    pub budget: Option<f64>,
}

fn tmp_dir() -> String {
    let d = format!("{}/sim/target/tmp", verif_root());
    let _ = std::fs::create_dir_all(&d);
    d
}

fn merge_map(into: &mut BTreeMap<String, u64>, j: Option<&J>) {
    if let Some(J::Obj(m)) = j {
        for (k, v) in m {
            *into.entry(k.clone()).or_default() += v.as_u64().unwrap_or(0);
        }
    }
}

fn merge_arr(into: &mut Vec<u64>, j: Option<&J>) {
    if let Some(J::Arr(a)) = j {
        if into.len() < a.len() {
            into.resize(a.len(), 0);
        }
        for (i, v) in a.iter().enumerate() {
            into[i] += v.as_u64().unwrap_or(0);
        }
    }
}

fn read_digests(path: &str) -> Vec<(u64, u64, bool)> {
    let mut out = Vec::new();
    if let Ok(mut f) = std::fs::File::open(path) {
        let mut buf = Vec::new();
        if f.read_to_end(&mut buf).is_ok() {
            for c in buf.chunks_exact(17) {
                let i = u64::from_le_bytes(c[0..8].try_into().unwrap());
                let d = u64::from_le_bytes(c[8..16].try_into().unwrap());
                out.push((i, d, c[16] != 0));
            }
        }
    }
    out
}

fn components() -> J {
    J::obj()
        .set(
            "real",
            J::Arr(
                [
                    "every line of /repo/src (multiqueue.rs, read_cursor.rs, countedindex.rs, memory.rs, atomicsignal.rs, wait.rs, broadcast.rs, mpmc.rs, alloc.rs) at the current working tree",
                    "futures 0.1.31 Task/Spawn/Sink/Stream machinery",
                    "smallvec, atomic_utilities",
                    "std::sync::Arc",
                ]
                .iter()
                .map(|s| J::str(s))
                .collect(),
            ),
        )
        .set(
            "stub",
            J::Arr(
                [
                    "AtomicUsize/AtomicPtr: transparent wrappers over the real atomics, one scheduling point before every operation (sequentially consistent)",
                    "parking_lot Mutex/Condvar and std Mutex: simulator locks whose waiters are visibly blocked",
                    "thread::yield_now, thread::sleep(100ms) in fut_wait: scheduling points, simulated time",
                    "futures executor loop and Notify: one simulated thread per task, park/unpark through the scheduler",
                    "allocator reuse policy (quarantine mode for C16) and byte attribution (C17)",
                    "OS scheduler: seeded strategies uniform / sticky / pct, stalls, solo freezes",
                ]
                .iter()
                .map(|s| J::str(s))
                .collect(),
            ),
        )
}

pub fn run_check(a: &CheckArgs) -> i32 {
    let t0 = Instant::now();
    let prop = a.prop.as_str();
    if props::prop_static(prop).is_none() {
        eprintln!("unknown property {}", prop);
        return 2;
    }
    let (def_runs, def_budget) = props::tier_size(prop, a.thorough);
    let n_runs = a.runs.unwrap_or(def_runs);
    let budget = a.budget.unwrap_or(def_budget as f64);
    let nw = a.workers.max(1);
    let exe = std::env::current_exe().expect("current exe");
    let tmp = tmp_dir();
    let tier = if a.thorough { "thorough" } else { "quick" };
    let tag = format!("{}-{}-{}", prop, tier, std::process::id());
    println!("check {} tier={} seed={} runs<={} workers={} budget={}s", prop, tier, a.seed, n_runs, nw, budget);

    // ---- fork workers
    let mut kids = Vec::new();
    for w in 0..nw {
        let dfile = format!("{}/{}-w{}.dig", tmp, tag, w);
        let log = std::fs::File::create(format!("{}/{}-w{}.log", tmp, tag, w)).ok();
        let mut c = Command::new(&exe);
        c.arg("worker")
            .arg(prop)
            .arg(a.seed.to_string())
            .arg(w.to_string())
            .arg(nw.to_string())
            .arg(n_runs.to_string())
            .arg(format!("{}", budget))
            .arg(&dfile)
            .stdout(Stdio::piped());
        match log {
            Some(l) => {
                c.stderr(Stdio::from(l));
            }
            None => {
                c.stderr(Stdio::null());
            }
        }
        match c.spawn() {
            Ok(k) => kids.push((w, k, dfile)),
            Err(e) => {
                eprintln!("cannot spawn worker: {}", e);
                return 2;
            }
        }
    }
    let mut reports: Vec<J> = Vec::new();
    let mut crashed: Vec<String> = Vec::new();
    let mut hung: Vec<u64> = Vec::new();
    let mut crashed_idx: Vec<u64> = Vec::new();
    let mut digest_files = Vec::new();
    for (w, k, dfile) in kids {
        let out = k.wait_with_output();
        match out {
            Ok(o) => {
                let txt = String::from_utf8_lossy(&o.stdout).to_string();
                let line = txt.lines().rev().find(|l| l.starts_with('{')).unwrap_or("");
                match json::parse(line) {
                    Ok(j) if o.status.success() => reports.push(j),
                    Ok(j) if j.get("hung_index").is_some() => hung.push(j.u("hung_index")),
                    Ok(j) if j.get("crashed_index").is_some() => crashed_idx.push(j.u("crashed_index")),
                    _ => crashed.push(format!("worker {} exited with {:?} (log: {}/{}-w{}.log)", w, o.status, tmp, tag, w)),
                }
            }
            Err(e) => crashed.push(format!("worker {}: {}", w, e)),
        }
        digest_files.push(dfile);
    }

    // ---- merge
    let mut runs = 0u64;
    let mut steps = 0u64;
    let mut max_steps = 0u64;
    let mut ends = BTreeMap::new();
    let mut families = BTreeMap::new();
    let mut flavours = BTreeMap::new();
    let mut knobs = BTreeMap::new();
    let mut incomplete: Vec<J> = Vec::new();
    let mut caps = BTreeMap::new();
    let mut waits = BTreeMap::new();
    let mut strategies = BTreeMap::new();
    let mut faults: Vec<u64> = Vec::new();
    let mut probes: Vec<u64> = Vec::new();
    let mut sim_time_ms = 0u64;
    let mut violations: Vec<J> = Vec::new();
    let mut n_violations = 0u64;
    let mut harness_errors: Vec<String> = crashed.clone();
    let mut samples: Vec<J> = Vec::new();
    let mut first_index = u64::MAX;
    let mut last_index = 0u64;
    let mut extra: BTreeMap<String, u64> = BTreeMap::new();
    for r in &reports {
        runs += r.u("runs");
        steps += r.u("steps");
        max_steps = max_steps.max(r.u("max_steps"));
        merge_map(&mut ends, r.get("ends"));
        if let Some(a) = r.get("incomplete").and_then(|x| x.as_arr()) {
            for x in a {
                if incomplete.len() < 100 {
                    incomplete.push(x.clone());
                }
            }
        }
        merge_map(&mut families, r.get("families"));
        merge_map(&mut flavours, r.get("flavours"));
        merge_map(&mut knobs, r.get("knobs"));
        merge_map(&mut caps, r.get("capacities"));
        merge_map(&mut waits, r.get("waits"));
        merge_map(&mut strategies, r.get("strategies"));
        merge_arr(&mut faults, r.get("faults"));
        merge_arr(&mut probes, r.get("probes"));
        sim_time_ms += r.u("sim_time_ms");
        n_violations += r.u("n_violations");
        if let Some(a) = r.get("violations").and_then(|x| x.as_arr()) {
            violations.extend(a.iter().cloned());
        }
        if let Some(a) = r.get("harness_errors").and_then(|x| x.as_arr()) {
            harness_errors.extend(a.iter().filter_map(|x| x.as_str().map(|s| s.to_string())));
        }
        if let Some(a) = r.get("samples").and_then(|x| x.as_arr()) {
            samples.extend(a.iter().cloned());
        }
        if r.u("runs") > 0 {
            first_index = first_index.min(r.u("first_index"));
            last_index = last_index.max(r.u("last_index"));
        }
        for k in ["payloads", "clones", "views", "preempts_in_api", "contention", "stalls_planned", "tasks_max"] {
            let e = extra.entry(k.to_string()).or_default();
            if k == "tasks_max" {
                *e = (*e).max(r.u(k));
            } else {
                *e += r.u(k);
            }
        }
    }
    samples.sort_by_key(|s| s.u("index"));
    samples.truncate(3);
    // a run that never came back: reported with its scenario (re-running it hangs again)
    hung.sort_unstable();
    crashed_idx.sort_unstable();
    let fatal: Vec<(u64, bool)> = hung.iter().map(|i| (*i, true)).chain(crashed_idx.iter().map(|i| (*i, false))).collect();
    for &(index, is_hang) in fatal.iter().take(1) {
        let seed = crate::prng::run_seed(a.seed, props::salt(prop), index);
        let (scn, cfg) = props::generate(prop, seed, index);
        n_violations += 1;
        violations.push(
            J::obj()
                .set("property", J::str(prop))
                .set("class", J::Str(format!("{}.{}", prop, if is_hang { "hang" } else { "crash" })))
                .set("site", J::str("?"))
                .set("tags", J::Arr(scn.tags.iter().map(|t| J::str(t)).collect()))
                .set(
                    "message",
                    J::str(if is_hang {
                        "the run never came back: the queue's code loops outside any scheduling point of the simulator (for example a destructor walking an inconsistent position range); the worker's watchdog ended the process"
                    } else {
                        "the worker process died on a fatal signal (segmentation fault / abort) while executing this run: real memory corruption in the queue's code"
                    }),
                )
                .set("index", J::UInt(index))
                .set("seed", J::UInt(seed))
                .set("end", J::str("hang"))
                .set("hang", J::Bool(true))
                .set("scenario", scn.to_json())
                .set("sched", crate::scenario::sched_json(&cfg))
                .set("schedule", J::str(""))
                .set("history_digest", J::str(""))
                .set("minimised", J::Bool(false)),
        );
    }
    violations.sort_by_key(|v| v.u("index"));

    // ---- distinct non-trivial executions and determinism resample
    let mut all_digests: HashMap<u64, u64> = HashMap::new();
    let mut distinct: HashSet<u64> = HashSet::new();
    for f in &digest_files {
        for (i, d, nt) in read_digests(f) {
            all_digests.insert(i, d);
            if nt {
                distinct.insert(d);
            }
        }
        let _ = std::fs::remove_file(f);
    }
    let mut resampled = 0u64;
    let mut mismatches = 0u64;
    if !all_digests.is_empty() && harness_errors.is_empty() {
        let mut idx: Vec<u64> = all_digests.keys().copied().collect();
        idx.sort_unstable();
        let want = if a.thorough { 4000 } else { 600 };
        let stride = (idx.len() / want).max(1);
        let pick: Vec<u64> = idx.iter().step_by(stride).copied().collect();
        let ifile = format!("{}/{}-resample.idx", tmp, tag);
        let dfile = format!("{}/{}-resample.dig", tmp, tag);
        let _ = std::fs::write(&ifile, pick.iter().map(|i| i.to_string()).collect::<Vec<_>>().join("\n"));
        let out = Command::new(&exe)
            .arg("worker")
            .arg(prop)
            .arg(a.seed.to_string())
            .arg("0")
            .arg("1")
            .arg(n_runs.to_string())
            .arg("3600")
            .arg(&dfile)
            .arg(&ifile)
            .stdout(Stdio::piped())
            .stderr(Stdio::null())
            .output();
        if let Ok(o) = out {
            if o.status.success() {
                for (i, d, _) in read_digests(&dfile) {
                    resampled += 1;
                    if all_digests.get(&i) != Some(&d) {
                        mismatches += 1;
                        if mismatches <= 3 {
                            harness_errors.push(format!("determinism: run {} produced a different history when re-run in a second process", i));
                        }
                    }
                }
            } else {
                harness_errors.push("determinism resample worker failed".into());
            }
        }
        let _ = std::fs::remove_file(&ifile);
        let _ = std::fs::remove_file(&dfile);
    }

    // ---- known findings were already set aside by the workers (same file, same rule)
    let mut known_seen: BTreeMap<String, u64> = BTreeMap::new();
    for r in &reports {
        merge_map(&mut known_seen, r.get("known"));
    }
    let unknown: Vec<J> = violations;
    for (k, n) in &known_seen {
        println!("KNOWN-FINDING: {} (seen in {} run(s))", k, n);
    }

    // ---- minimise and persist the first unknown violation
    let mut replay_paths: Vec<String> = Vec::new();
    let _ = std::fs::create_dir_all(format!("{}/replays", verif_root()));
    if let Some(first) = unknown.first() {
        let path = format!("{}/replays/{}-{}-{}.json", verif_root(), prop, a.seed, first.u("index"));
        // an un-minimised but strict replay file first, so that a timeout never loses it
        let _ = std::fs::write(&path, first.pretty());
        // VERIF_MINIMISE_S overrides the minimisation budget (0 = keep the strict replay file
        // as it is); used by the mutation screening, which only needs the verdict
        let min_secs = std::env::var("VERIF_MINIMISE_S").ok().and_then(|x| x.parse::<u64>().ok()).unwrap_or(if a.thorough { 60 } else { 20 });
        let min_budget = Duration::from_secs(min_secs);
        let is_hang = first.get("hang").and_then(|x| x.as_bool()).unwrap_or(false);
        if !is_hang && min_secs > 0 {
            // minimise in a child process with a hard time limit: on a broken tree a single
            // execution may never return
            let out_path = format!("{}.min", path);
            let child = Command::new(&exe)
                .arg("minimise")
                .arg(&path)
                .arg(&out_path)
                .arg(min_budget.as_secs().to_string())
                .stdout(Stdio::null())
                .stderr(Stdio::null())
                .spawn();
            if let Ok(mut c) = child {
                let deadline = Instant::now() + min_budget + Duration::from_secs(45);
                loop {
                    match c.try_wait() {
                        Ok(Some(_)) => break,
                        Ok(None) if Instant::now() > deadline => {
                            let _ = c.kill();
                            let _ = c.wait();
                            break;
                        }
                        Ok(None) => std::thread::sleep(Duration::from_millis(100)),
                        Err(_) => break,
                    }
                }
            }
            if let Ok(txt) = std::fs::read_to_string(&out_path) {
                if json::parse(&txt).is_ok() {
                    // replay once more in a fresh process (with a time limit of its own)
                    let _ = std::fs::write(&path, &txt);
                    let ok = Command::new("timeout")
                        .arg("120")
                        .arg(&exe)
                        .arg("replay")
                        .arg(&path)
                        .stdout(Stdio::null())
                        .stderr(Stdio::null())
                        .status()
                        .map(|s| s.code() == Some(1))
                        .unwrap_or(false);
                    if !ok {
                        let _ = std::fs::write(&path, first.pretty());
                    }
                }
            }
            let _ = std::fs::remove_file(&out_path);
        }
        replay_paths.push(path);
    }

    // ---- evidence
    let wall = t0.elapsed().as_secs_f64();
    let fault_obj = J::Obj(rt::state::FAULT_NAMES.iter().enumerate().map(|(i, n)| (n.to_string(), J::UInt(*faults.get(i).unwrap_or(&0)))).collect());
    let probe_obj = J::Obj(rt::state::PROBE_NAMES.iter().enumerate().map(|(i, n)| (n.to_string(), J::UInt(*probes.get(i).unwrap_or(&0)))).collect());
    let rule = format!(
        "Each evaluation is one complete simulated execution of a scenario generated from (VERIF_SEED, run index) by the families listed under `families`: \
         scenario shape, programs, scheduling strategy, stalls and injected faults all come from that one number. An execution counts as non-trivial iff it ran to completion, \
         had at least one preemption of a thread inside a queue API call, and at least one contention event seen by the runtime (failed CAS, contended lock, or a Full / Empty / pin-conflict / commit-retry / task-parked branch taken){}; a sequential-engine run is non-trivial iff it completed and at least 3 of its calls were really executed against the model (calls that are invalid in the reached state are skipped). \
         distinct_nontrivial counts distinct values of hash(scenario digest, interleaving digest = sequence of (task, operation kind) at every scheduling point, history digest) among the non-trivial executions.",
        props::nontrivial_extra(prop)
    );
    let mut coverage = J::obj()
        .set("evaluations", J::UInt(runs))
        .set("distinct_nontrivial", J::UInt(distinct.len() as u64))
        .set("rule", J::Str(rule))
        .set("samples", J::Arr(samples))
        .set("first_run_index", J::UInt(if first_index == u64::MAX { 0 } else { first_index }))
        .set("last_run_index", J::UInt(last_index))
        .set("runs_per_hour", J::UInt(if wall > 0.0 { (runs as f64 / wall * 3600.0) as u64 } else { 0 }))
        .set("simulated_steps", J::UInt(steps))
        .set("steps_per_run_mean", J::Num(if runs > 0 { (steps as f64 / runs as f64 * 10.0).round() / 10.0 } else { 0.0 }))
        .set("steps_per_run_max", J::UInt(max_steps))
        .set("simulated_time_ms", J::UInt(sim_time_ms))
        .set("faults_fired", fault_obj)
        .set("probes_hit", probe_obj)
        .set("ends", J::from_map(&ends))
        .set("runs_not_completed", J::Arr(incomplete.clone()))
        .set("families", J::from_map(&families))
        .set("flavours", J::from_map(&flavours))
        .set("runs_with_knob", J::from_map(&knobs))
        .set("capacities_N", J::from_map(&caps))
        .set("wait_strategies", J::from_map(&waits))
        .set("scheduler_strategies", J::from_map(&strategies))
        .set("determinism_resampled", J::obj().set("executions", J::UInt(resampled)).set("mismatches", J::UInt(mismatches)))
        .set("components", components())
        .set("known_findings_seen", J::Obj(known_seen.iter().map(|(k, v)| (k.clone(), J::UInt(*v))).collect()))
        .set("violating_runs", J::UInt(n_violations))
        .set("replay_files", J::Arr(replay_paths.iter().map(|p| J::str(p)).collect()))
        .set("workers", J::UInt(nw));
    for (k, v) in &extra {
        coverage.put(k, J::UInt(*v));
    }
    let zero_probes: Vec<&str> = rt::state::PROBE_NAMES.iter().enumerate().filter(|(i, _)| *probes.get(*i).unwrap_or(&0) == 0).map(|(_, n)| *n).collect();
    coverage.put("probes_never_hit", J::Arr(zero_probes.iter().map(|s| J::str(s)).collect()));
    let evidence = J::obj()
        .set("property_id", J::str(prop))
        .set("tier", J::str(tier))
        .set("seed", J::UInt(a.seed))
        .set("level", J::str("exploration"))
        .set("coverage", coverage)
        .set(
            "assumptions",
            J::Arr(
                [
                    "sequentially consistent interleavings at the granularity of the crate's atomic / lock operations; weak-memory reorderings are out of reach",
                    "seeded sampling, not enumeration: a clean batch is evidence, not proof",
                    "bounds: <= 3 producers, <= 3 streams, <= 5 consumers, <= 12 values per producer, capacity requests 0..9, 64-bit index layout",
                    "shim atomics/locks implement the std / parking_lot contracts faithfully (no spurious condvar wake-ups, as parking_lot documents)",
                ]
                .iter()
                .map(|s| J::str(s))
                .collect(),
            ),
        )
        .set("wall_s", J::Num((wall * 100.0).round() / 100.0))
        .set("violations", J::Int(unknown.len() as i64));
    let _ = std::fs::create_dir_all(format!("{}/evidence", verif_root()));
    let epath = format!("{}/evidence/{}.json", verif_root(), prop);
    if let Err(e) = std::fs::write(&epath, evidence.pretty()) {
        eprintln!("cannot write {}: {}", epath, e);
        return 2;
    }

    println!(
        "{}: {} executions, {} distinct non-trivial, {} steps, ends {:?}, {:.1}s",
        prop,
        runs,
        distinct.len(),
        steps,
        ends,
        wall
    );
    if !harness_errors.is_empty() {
        for e in harness_errors.iter().take(5) {
            println!("HARNESS-ERROR: {}", e);
        }
        if unknown.is_empty() {
            return 2;
        }
    }
    if let Some(v) = unknown.first() {
        println!("violation: {} at {} - {}", v.s("class"), v.s("site"), v.s("message"));
        println!("VIOLATION property={} replay={}", prop, replay_paths.first().cloned().unwrap_or_default());
        return 1;
    }
    if runs == 0 {
        println!("HARNESS-ERROR: no execution ran");
        return 2;
    }
    0
}

pub fn run_replay(path: &str) -> i32 {
    let txt = match std::fs::read_to_string(path) {
        Ok(t) => t,
        Err(e) => {
            eprintln!("cannot read {}: {}", path, e);
            return 2;
        }
    };
    let j = match json::parse(&txt) {
        Ok(j) => j,
        Err(e) => {
            eprintln!("bad replay file: {}", e);
            return 2;
        }
    };
    if j.get("hang").and_then(|x| x.as_bool()).unwrap_or(false) {
        // re-run the scenario in a child process under a watchdog
        let exe = std::env::current_exe().expect("current exe");
        let tmp = tmp_dir();
        let ifile = format!("{}/replay-hang-{}.idx", tmp, std::process::id());
        let _ = std::fs::write(&ifile, j.u("index").to_string());
        // the base seed is not stored; the scenario is: run it directly
        let out = Command::new("timeout").arg("90").arg(&exe).arg("run-scenario").arg(path).stdout(Stdio::piped()).stderr(Stdio::null()).output();
        let _ = std::fs::remove_file(&ifile);
        return match out {
            Ok(o) if o.status.code() == Some(124) => {
                println!("reproduced: the run does not come back within 90 s");
                println!("VIOLATION property={} replay={}", j.s("property"), path);
                1
            }
            Ok(o) if !o.status.success() => {
                println!("reproduced: the run ended abnormally ({:?})", o.status);
                println!("VIOLATION property={} replay={}", j.s("property"), path);
                1
            }
            Ok(_) => {
                println!("not reproduced: the run completed");
                0
            }
            Err(e) => {
                eprintln!("cannot run: {}", e);
                2
            }
        };
    }
    let f = match minimise::parse_failure(&j) {
        Ok(f) => f,
        Err(e) => {
            eprintln!("bad replay file: {}", e);
            return 2;
        }
    };
    let r = minimise::replay(&f);
    println!("replay of {}: end={} steps={}", path, r.outcome.end.name(), r.outcome.stats.steps);
    for rec in r.outcome.recs.iter().rev().take(40).rev() {
        println!("  {}", crate::hist::fmt_rec(rec));
    }
    if r.reproduced {
        let v = r.violation.as_ref().unwrap();
        println!("reproduced {}.{} at {} (history digest {}): {}", v.prop, v.class, v.site, if r.same_history { "identical" } else { "differs" }, v.msg);
        println!("VIOLATION property={} replay={}", f.prop, path);
        return 1;
    }
    if let Some(v) = &r.violation {
        println!("a different violation occurred: {}.{} at {}: {}", v.prop, v.class, v.site, v.msg);
        println!("VIOLATION property={} replay={}", f.prop, path);
        return 1;
    }
    if !r.note.is_empty() {
        println!("not reproduced: {}", r.note);
        return 2;
    }
    println!("not reproduced: the run completed without the recorded violation");
    0
}
