//! Drop-in replacements for the concurrency primitives multiqueue2 imports. Under
//! `--cfg multiqueue2_verif` the crate's `use` lines resolve here.
//!
//! The atomics are `#[repr(transparent)]` wrappers over the real `std` atomics: the crate
//! calls `.store()` on atomics that live in raw, never-constructed memory, so a shim must be
//! valid for every bit pattern and keep the layout. Every operation is preceded by one
//! scheduling point; because exactly one simulated task runs between two scheduling points
//! the operations are sequentially consistent.

use crate::galloc;
use crate::state::{mix, with, Fault, Probe, Rt};
use shuttle_engine::runtime::execution::ExecutionState;
use shuttle_engine::runtime::task::TaskId;
use std::cell::{Cell, RefCell, UnsafeCell};
use std::ops::{Deref, DerefMut};
use std::sync::atomic as real;
pub use std::sync::atomic::Ordering;
use std::sync::{LockResult, TryLockError, TryLockResult};

pub const K_LOAD: u8 = 1;
pub const K_STORE: u8 = 2;
pub const K_RMW: u8 = 3;
pub const K_CAS: u8 = 4;
pub const K_LOCK: u8 = 5;
pub const K_TRYLOCK: u8 = 6;
pub const K_NOTIFY: u8 = 7;
pub const K_YIELD: u8 = 8;
pub const K_SLEEP: u8 = 9;
pub const K_USER: u8 = 10;
pub const K_WAKE: u8 = 11;

const LOCKED_TAG: u64 = 0x10c4_ed00;
const WAIT_TAG: u64 = 0x3a17_ed00;

/// One scheduling point. Returns immediately outside an execution or while unwinding.
#[inline]
pub fn sched_point(kind: u8) {
    with(|rt| {
        if !rt.active.get() || std::thread::panicking() {
            return;
        }
        raw_switch(rt);
        account(rt, kind);
    })
}

#[inline]
fn raw_switch(_rt: &Rt) {
    let saved = galloc::suspend();
    shuttle_engine::runtime::thread::switch();
    galloc::resume(saved);
}

#[inline]
fn account(rt: &Rt, kind: u8) {
    let t = rt.cur.get();
    rt.steps.set(rt.steps.get() + 1);
    rt.task_steps[t].set(rt.task_steps[t].get() + 1);
    rt.idle_ops[t].set(rt.idle_ops[t].get().saturating_add(1));
    rt.ilv.set(mix(rt.ilv.get(), ((t as u64) << 8) | kind as u64));
}

#[inline(never)]
fn trace_op(rt: &Rt, what: &str, addr: usize, old: u64, new: u64) {
    eprintln!("  [step {:>5}] t{} {:<28} @{:06x} {:#x} -> {:#x}", rt.steps.get(), rt.cur.get(), what, addr & 0xffffff, old, new);
}

pub const K_POST: u8 = 12;

#[inline]
fn changed(rt: &Rt, addr: usize, old: u64, new: u64) {
    if rt.trace.get() {
        trace_op(rt, "write/rmw", addr, old, new);
    }
    if old != new {
        rt.fp.set(rt.fp.get() ^ mix(addr as u64, old) ^ mix(addr as u64, new));
        rt.idle_ops[rt.cur.get()].set(0);
    }
    if rt.post_write.get() && rt.active.get() && !std::thread::panicking() {
        // a second scheduling point after the write took effect: whatever non-atomic code
        // follows (writing the payload after its tag, dropping a value after committing the
        // position) can now be interleaved with other tasks
        raw_switch(rt);
        account(rt, K_POST);
    }
}

/// Optional scheduling point after a load (or a failed CAS, which is a load): the window
/// between reading a pointer / position / tag and the non-atomic code that uses it (a
/// dereference, a copy-out) becomes preemptible.
#[inline]
fn post_read(rt: &Rt) {
    if rt.post_load.get() && rt.active.get() && !std::thread::panicking() {
        raw_switch(rt);
        account(rt, K_POST);
    }
}

#[inline]
fn pre(addr: usize, kind: u8, what: &'static str) -> bool {
    with(|rt| {
        if !rt.active.get() || std::thread::panicking() {
            return false;
        }
        raw_switch(rt);
        account(rt, kind);
        if rt.quarantine.get() {
            rt.check_addr(addr, what);
        }
        true
    })
}

// ---------------------------------------------------------------------------------------
// AtomicUsize

#[repr(transparent)]
pub struct AtomicUsize(real::AtomicUsize);

impl AtomicUsize {
    #[inline]
    pub const fn new(v: usize) -> AtomicUsize {
        AtomicUsize(real::AtomicUsize::new(v))
    }
    #[inline]
    fn addr(&self) -> usize {
        self as *const _ as usize
    }
    #[inline]
    pub fn load(&self, _o: Ordering) -> usize {
        let a = pre(self.addr(), K_LOAD, "atomic load");
        let v = self.0.load(Ordering::SeqCst);
        if a {
            with(|rt| {
                if rt.trace.get() {
                    trace_op(rt, "load", self.addr(), v as u64, v as u64)
                }
                post_read(rt);
            });
        }
        v
    }
    /// Unobserved read for the harness (no scheduling point).
    #[inline]
    pub fn peek(&self) -> usize {
        self.0.load(Ordering::SeqCst)
    }
    #[inline]
    pub fn store(&self, v: usize, _o: Ordering) {
        let a = pre(self.addr(), K_STORE, "atomic store");
        let old = self.0.swap(v, Ordering::SeqCst);
        if a {
            with(|rt| changed(rt, self.addr(), old as u64, v as u64));
        }
    }
    #[inline]
    pub fn swap(&self, v: usize, _o: Ordering) -> usize {
        let a = pre(self.addr(), K_RMW, "atomic swap");
        let old = self.0.swap(v, Ordering::SeqCst);
        if a {
            with(|rt| changed(rt, self.addr(), old as u64, v as u64));
        }
        old
    }
    #[inline]
    pub fn fetch_add(&self, v: usize, _o: Ordering) -> usize {
        let a = pre(self.addr(), K_RMW, "atomic fetch_add");
        let old = self.0.fetch_add(v, Ordering::SeqCst);
        if a {
            with(|rt| changed(rt, self.addr(), old as u64, old.wrapping_add(v) as u64));
        }
        old
    }
    #[inline]
    pub fn fetch_sub(&self, v: usize, _o: Ordering) -> usize {
        let a = pre(self.addr(), K_RMW, "atomic fetch_sub");
        let old = self.0.fetch_sub(v, Ordering::SeqCst);
        if a {
            with(|rt| changed(rt, self.addr(), old as u64, old.wrapping_sub(v) as u64));
        }
        old
    }
    #[inline]
    pub fn fetch_or(&self, v: usize, _o: Ordering) -> usize {
        let a = pre(self.addr(), K_RMW, "atomic fetch_or");
        let old = self.0.fetch_or(v, Ordering::SeqCst);
        if a {
            with(|rt| changed(rt, self.addr(), old as u64, (old | v) as u64));
        }
        old
    }
    #[inline]
    pub fn fetch_and(&self, v: usize, _o: Ordering) -> usize {
        let a = pre(self.addr(), K_RMW, "atomic fetch_and");
        let old = self.0.fetch_and(v, Ordering::SeqCst);
        if a {
            with(|rt| changed(rt, self.addr(), old as u64, (old & v) as u64));
        }
        old
    }
    #[inline]
    pub fn compare_exchange(
        &self,
        cur: usize,
        new: usize,
        _s: Ordering,
        _f: Ordering,
    ) -> Result<usize, usize> {
        let a = pre(self.addr(), K_CAS, "atomic compare_exchange");
        let r = self
            .0
            .compare_exchange(cur, new, Ordering::SeqCst, Ordering::SeqCst);
        if a {
            with(|rt| match r {
                Ok(old) => changed(rt, self.addr(), old as u64, new as u64),
                Err(_) => {
                    rt.contention.set(rt.contention.get() + 1);
                    post_read(rt);
                }
            });
        }
        r
    }
    #[inline]
    pub fn compare_exchange_weak(
        &self,
        cur: usize,
        new: usize,
        _s: Ordering,
        _f: Ordering,
    ) -> Result<usize, usize> {
        let a = pre(self.addr(), K_CAS, "atomic compare_exchange_weak");
        if a {
            // injected fault: a weak CAS may fail although the value matches
            let spurious = with(|rt| {
                let rate = rt.weak_cas_rate.get();
                if rate != 0 && rt.weak_cas_consec.get() < 2 {
                    let r = (rt.next_fault_rand() >> 16) as u32 & 0xffff;
                    if r < rate {
                        rt.weak_cas_consec.set(rt.weak_cas_consec.get() + 1);
                        return true;
                    }
                }
                rt.weak_cas_consec.set(0);
                false
            });
            if spurious {
                let v = self.0.load(Ordering::SeqCst);
                if v == cur {
                    with(|rt| rt.fault(Fault::WeakCasSpurious));
                    return Err(v);
                }
            }
        }
        let r = self
            .0
            .compare_exchange(cur, new, Ordering::SeqCst, Ordering::SeqCst);
        if a {
            with(|rt| match r {
                Ok(old) => changed(rt, self.addr(), old as u64, new as u64),
                Err(_) => {
                    rt.contention.set(rt.contention.get() + 1);
                    // the crate's only weak CAS is Transaction::commit: a lost race on the
                    // head (multi-producer claim) or on a shared reader position
                    let p = &rt.probes[Probe::MultiCasRetry as usize];
                    p.set(p.get() + 1);
                    post_read(rt);
                }
            });
        }
        r
    }
}

impl Default for AtomicUsize {
    fn default() -> Self {
        AtomicUsize::new(0)
    }
}

impl std::fmt::Debug for AtomicUsize {
    fn fmt(&self, f: &mut std::fmt::Formatter<'_>) -> std::fmt::Result {
        write!(f, "AtomicUsize({})", self.peek())
    }
}

// ---------------------------------------------------------------------------------------
// AtomicPtr

#[repr(transparent)]
pub struct AtomicPtr<T>(real::AtomicPtr<T>);

impl<T> AtomicPtr<T> {
    #[inline]
    pub const fn new(p: *mut T) -> AtomicPtr<T> {
        AtomicPtr(real::AtomicPtr::new(p))
    }
    #[inline]
    fn addr(&self) -> usize {
        self as *const _ as usize
    }
    #[inline]
    pub fn load(&self, _o: Ordering) -> *mut T {
        let a = pre(self.addr(), K_LOAD, "atomic pointer load");
        let v = self.0.load(Ordering::SeqCst);
        if a {
            with(|rt| post_read(rt));
        }
        v
    }
    #[inline]
    pub fn peek(&self) -> *mut T {
        self.0.load(Ordering::SeqCst)
    }
    #[inline]
    pub fn store(&self, p: *mut T, _o: Ordering) {
        let a = pre(self.addr(), K_STORE, "atomic pointer store");
        let old = self.0.swap(p, Ordering::SeqCst);
        if a {
            with(|rt| changed(rt, self.addr(), old as usize as u64, p as usize as u64));
        }
    }
    #[inline]
    pub fn compare_exchange(
        &self,
        cur: *mut T,
        new: *mut T,
        _s: Ordering,
        _f: Ordering,
    ) -> Result<*mut T, *mut T> {
        let a = pre(self.addr(), K_CAS, "atomic pointer compare_exchange");
        let r = self
            .0
            .compare_exchange(cur, new, Ordering::SeqCst, Ordering::SeqCst);
        if a {
            with(|rt| match r {
                Ok(old) => changed(rt, self.addr(), old as usize as u64, new as usize as u64),
                Err(_) => {
                    rt.contention.set(rt.contention.get() + 1);
                    post_read(rt);
                }
            });
        }
        r
    }
}

/// Fences order nothing that the sequentially consistent simulation does not already
/// order; they stay real fences and are not scheduling points.
#[inline]
pub fn fence(o: Ordering) {
    real::fence(o)
}

// ---------------------------------------------------------------------------------------
// yield / sleep

#[inline]
pub fn yield_now() {
    with(|rt| {
        if !rt.active.get() || std::thread::panicking() {
            return;
        }
        ExecutionState::request_yield();
        raw_switch(rt);
        account(rt, K_YIELD);
    })
}

/// Simulated sleep: advances the simulated clock and yields; never sleeps for real.
pub fn sleep(d: std::time::Duration) {
    with(|rt| {
        if !rt.active.get() || std::thread::panicking() {
            return;
        }
        rt.sim_time_ms
            .set(rt.sim_time_ms.get() + d.as_millis() as u64);
        rt.fault(Fault::SleepJump);
        ExecutionState::request_yield();
        raw_switch(rt);
        account(rt, K_SLEEP);
    })
}

/// A scheduling point for harness code (payload `Clone`, view closures, executor).
#[inline]
pub fn user_point() {
    sched_point(K_USER)
}

// ---------------------------------------------------------------------------------------
// Raw lock: the scheduler sees a waiter as blocked, so deadlock detection is exact.

pub struct RawLock {
    held: Cell<bool>,
    holder: Cell<usize>,
    exec: Cell<u32>,
    waiters: RefCell<Vec<usize>>,
}

unsafe impl Send for RawLock {}
unsafe impl Sync for RawLock {}

impl RawLock {
    pub const fn new() -> RawLock {
        RawLock {
            held: Cell::new(false),
            holder: Cell::new(0),
            exec: Cell::new(0),
            waiters: RefCell::new(Vec::new()),
        }
    }

    #[inline]
    fn addr(&self) -> usize {
        self as *const _ as usize
    }

    fn take(&self, rt: &Rt, active: bool) {
        self.held.set(true);
        if active {
            let me = rt.cur.get();
            self.holder.set(me);
            self.exec.set(rt.exec_id.get());
            rt.locks_held[me].set(rt.locks_held[me].get() + 1);
            rt.toggle(self.addr(), LOCKED_TAG);
            rt.idle_ops[me].set(0);
        }
    }

    pub fn lock(&self) {
        with(|rt| {
            let active = rt.active.get() && !std::thread::panicking();
            if !active {
                // single-threaded context (outside an execution or unwinding): cannot block
                self.held.set(true);
                return;
            }
            raw_switch(rt);
            account(rt, K_LOCK);
            if rt.quarantine.get() {
                rt.check_addr(self.addr(), "lock");
            }
            loop {
                if !self.held.get() || self.exec.get() != rt.exec_id.get() {
                    self.take(rt, true);
                    return;
                }
                rt.contention.set(rt.contention.get() + 1);
                let me = rt.cur.get();
                if rt.solo.get() == Some(me) {
                    // a solo task is about to wait for a frozen lock holder
                    rt.solo_blocked.set(true);
                }
                self.waiters.borrow_mut().push(me);
                ExecutionState::with(|s| s.current_mut().block(false));
                raw_switch(rt);
                account(rt, K_WAKE);
            }
        })
    }

    pub fn try_lock(&self) -> bool {
        with(|rt| {
            let active = rt.active.get() && !std::thread::panicking();
            if !active {
                if self.held.get() {
                    return false;
                }
                self.held.set(true);
                return true;
            }
            raw_switch(rt);
            account(rt, K_TRYLOCK);
            if self.held.get() && self.exec.get() == rt.exec_id.get() {
                rt.contention.set(rt.contention.get() + 1);
                false
            } else {
                self.take(rt, true);
                true
            }
        })
    }

    pub fn unlock(&self) {
        with(|rt| {
            self.held.set(false);
            let in_exec = rt.active.get() && self.exec.get() == rt.exec_id.get();
            if in_exec {
                let h = self.holder.get();
                rt.locks_held[h].set(rt.locks_held[h].get().saturating_sub(1));
                rt.toggle(self.addr(), LOCKED_TAG);
                let mut w = self.waiters.borrow_mut();
                if !w.is_empty() {
                    let _ = ExecutionState::try_with(|s| {
                        for t in w.drain(..) {
                            s.get_mut(TaskId::from(t)).unblock();
                        }
                    });
                    w.clear();
                }
            } else {
                self.waiters.borrow_mut().clear();
            }
        })
    }

    pub fn is_held(&self) -> bool {
        self.held.get()
    }
}

// ---------------------------------------------------------------------------------------
// std::sync::Mutex look-alike (memory.rs)

pub struct Mutex<T: ?Sized> {
    raw: RawLock,
    data: UnsafeCell<T>,
}

unsafe impl<T: ?Sized + Send> Send for Mutex<T> {}
unsafe impl<T: ?Sized + Send> Sync for Mutex<T> {}

pub struct MutexGuard<'a, T: ?Sized> {
    m: &'a Mutex<T>,
}

impl<T> Mutex<T> {
    pub const fn new(v: T) -> Mutex<T> {
        Mutex {
            raw: RawLock::new(),
            data: UnsafeCell::new(v),
        }
    }
}

impl<T: ?Sized> Mutex<T> {
    pub fn lock(&self) -> LockResult<MutexGuard<'_, T>> {
        self.raw.lock();
        Ok(MutexGuard { m: self })
    }
    pub fn try_lock(&self) -> TryLockResult<MutexGuard<'_, T>> {
        if self.raw.try_lock() {
            Ok(MutexGuard { m: self })
        } else {
            Err(TryLockError::WouldBlock)
        }
    }
}

impl<T: ?Sized> Deref for MutexGuard<'_, T> {
    type Target = T;
    fn deref(&self) -> &T {
        unsafe { &*self.m.data.get() }
    }
}
impl<T: ?Sized> DerefMut for MutexGuard<'_, T> {
    fn deref_mut(&mut self) -> &mut T {
        unsafe { &mut *self.m.data.get() }
    }
}
impl<T: ?Sized> Drop for MutexGuard<'_, T> {
    fn drop(&mut self) {
        self.m.raw.unlock();
    }
}

// ---------------------------------------------------------------------------------------
// parking_lot facade (wait.rs, multiqueue.rs)

pub mod parking_lot {
    use super::*;

    pub struct Mutex<T: ?Sized> {
        pub(super) raw: RawLock,
        data: UnsafeCell<T>,
    }
    unsafe impl<T: ?Sized + Send> Send for Mutex<T> {}
    unsafe impl<T: ?Sized + Send> Sync for Mutex<T> {}

    pub struct MutexGuard<'a, T: ?Sized> {
        m: &'a Mutex<T>,
    }

    impl<T> Mutex<T> {
        pub const fn new(v: T) -> Mutex<T> {
            Mutex {
                raw: RawLock::new(),
                data: UnsafeCell::new(v),
            }
        }
    }
    impl<T: ?Sized> Mutex<T> {
        pub fn lock(&self) -> MutexGuard<'_, T> {
            self.raw.lock();
            MutexGuard { m: self }
        }
        pub fn try_lock(&self) -> Option<MutexGuard<'_, T>> {
            if self.raw.try_lock() {
                Some(MutexGuard { m: self })
            } else {
                None
            }
        }
    }
    impl<T: Default> Default for Mutex<T> {
        fn default() -> Self {
            Mutex::new(T::default())
        }
    }
    impl<T: ?Sized> Deref for MutexGuard<'_, T> {
        type Target = T;
        fn deref(&self) -> &T {
            unsafe { &*self.m.data.get() }
        }
    }
    impl<T: ?Sized> DerefMut for MutexGuard<'_, T> {
        fn deref_mut(&mut self) -> &mut T {
            unsafe { &mut *self.m.data.get() }
        }
    }
    impl<T: ?Sized> Drop for MutexGuard<'_, T> {
        fn drop(&mut self) {
            self.m.raw.unlock();
        }
    }

    /// Condition variable without spurious wake-ups (parking_lot documents none).
    pub struct Condvar {
        waiters: RefCell<Vec<usize>>,
        exec: Cell<u32>,
    }
    unsafe impl Send for Condvar {}
    unsafe impl Sync for Condvar {}

    impl Condvar {
        pub const fn new() -> Condvar {
            Condvar {
                waiters: RefCell::new(Vec::new()),
                exec: Cell::new(0),
            }
        }
        fn addr(&self) -> usize {
            self as *const _ as usize
        }
        pub fn wait<T: ?Sized>(&self, guard: &mut MutexGuard<'_, T>) {
            with(|rt| {
                if !rt.active.get() || std::thread::panicking() {
                    panic!("verif shim: Condvar::wait outside a simulated execution would block forever");
                }
                let me = rt.cur.get();
                crate::hooks::probe(Probe::CondvarWaitEntered as usize);
                {
                    let mut w = self.waiters.borrow_mut();
                    if self.exec.get() != rt.exec_id.get() {
                        w.clear();
                        self.exec.set(rt.exec_id.get());
                    }
                    w.push(me);
                }
                rt.toggle(self.addr() ^ (me << 4), WAIT_TAG);
                // release the mutex and go to sleep atomically (no scheduling point between)
                guard.m.raw.unlock();
                ExecutionState::with(|s| s.current_mut().block(false));
                raw_switch(rt);
                account(rt, K_WAKE);
                rt.idle_ops[me].set(0);
            });
            guard.m.raw.lock();
        }
        fn wake(&self, all: bool) {
            with(|rt| {
                if !rt.active.get() || std::thread::panicking() {
                    self.waiters.borrow_mut().clear();
                    return;
                }
                raw_switch(rt);
                account(rt, K_NOTIFY);
                let mut w = self.waiters.borrow_mut();
                if self.exec.get() != rt.exec_id.get() {
                    w.clear();
                    return;
                }
                let n = if all { w.len() } else { w.len().min(1) };
                for t in w.drain(..n) {
                    rt.toggle(self.addr() ^ (t << 4), WAIT_TAG);
                    ExecutionState::with(|s| s.get_mut(TaskId::from(t)).unblock());
                }
            })
        }
        pub fn notify_all(&self) -> usize {
            self.wake(true);
            0
        }
        pub fn notify_one(&self) -> bool {
            self.wake(false);
            false
        }
    }
    impl Default for Condvar {
        fn default() -> Self {
            Condvar::new()
        }
    }
}

// ---------------------------------------------------------------------------------------
// Parker: how a simulated futures task sleeps until it is notified. A parked task is
// blocked in the engine, so "every task parked and nobody to notify" is a visible deadlock.

pub struct Parker {
    flag: Cell<bool>,
    waiter: Cell<usize>,
    exec: Cell<u32>,
    pub notifications: Cell<u64>,
}
unsafe impl Send for Parker {}
unsafe impl Sync for Parker {}

const PARK_TAG: u64 = 0x9a4c_ed00;

impl Parker {
    pub fn new() -> Parker {
        Parker {
            flag: Cell::new(false),
            waiter: Cell::new(usize::MAX),
            exec: Cell::new(0),
            notifications: Cell::new(0),
        }
    }
    fn addr(&self) -> usize {
        self as *const _ as usize
    }
    /// Returns true if a notification was already pending (no sleep needed).
    pub fn is_notified(&self) -> bool {
        self.flag.get()
    }
    pub fn park(&self) {
        with(|rt| {
            if !rt.active.get() || std::thread::panicking() {
                panic!("verif shim: Parker::park outside a simulated execution");
            }
            raw_switch(rt);
            account(rt, K_USER);
            let me = rt.cur.get();
            loop {
                if self.flag.get() {
                    self.flag.set(false);
                    rt.toggle(self.addr(), PARK_TAG);
                    rt.idle_ops[me].set(0);
                    return;
                }
                self.waiter.set(me);
                self.exec.set(rt.exec_id.get());
                ExecutionState::with(|s| s.current_mut().block(false));
                raw_switch(rt);
                account(rt, K_WAKE);
            }
        })
    }
    pub fn unpark(&self) {
        with(|rt| {
            self.notifications.set(self.notifications.get() + 1);
            if !self.flag.get() {
                self.flag.set(true);
                if rt.active.get() {
                    rt.toggle(self.addr(), PARK_TAG);
                    rt.idle_ops[rt.cur.get()].set(0);
                }
            }
            let w = self.waiter.replace(usize::MAX);
            if w != usize::MAX && rt.active.get() && self.exec.get() == rt.exec_id.get() {
                let _ = ExecutionState::try_with(|s| s.get_mut(TaskId::from(w)).unblock());
            }
        })
    }
}

/// A one-shot latch for harness threads (AwaitLatch / SignalLatch).
pub struct Latch {
    set: Cell<bool>,
    waiters: RefCell<Vec<usize>>,
}
unsafe impl Send for Latch {}
unsafe impl Sync for Latch {}

impl Latch {
    pub fn new() -> Latch {
        Latch {
            set: Cell::new(false),
            waiters: RefCell::new(Vec::new()),
        }
    }
    pub fn is_set(&self) -> bool {
        self.set.get()
    }
    pub fn signal(&self) {
        with(|rt| {
            if !self.set.replace(true) && rt.active.get() {
                rt.toggle(self as *const _ as usize, PARK_TAG);
            }
            let mut w = self.waiters.borrow_mut();
            if rt.active.get() {
                let _ = ExecutionState::try_with(|s| {
                    for t in w.drain(..) {
                        s.get_mut(TaskId::from(t)).unblock();
                    }
                });
            }
            w.clear();
        })
    }
    pub fn wait(&self) {
        with(|rt| {
            if !rt.active.get() || std::thread::panicking() {
                return;
            }
            raw_switch(rt);
            account(rt, K_USER);
            while !self.set.get() {
                self.waiters.borrow_mut().push(rt.cur.get());
                ExecutionState::with(|s| s.current_mut().block(false));
                raw_switch(rt);
                account(rt, K_WAKE);
            }
        })
    }
}

/// Stop the current execution from inside a task (the scheduler sees `stop` and ends the
/// run). Never returns when called inside an execution.
pub fn stop_execution() {
    with(|rt| {
        if rt.active.get() && !std::thread::panicking() {
            rt.stop.set(true);
            raw_switch(rt);
        }
    })
}
