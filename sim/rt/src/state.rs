//! Per-OS-thread simulator state shared by the shims (linked into the crate under
//! test) and the harness (scheduler, oracles). One OS thread runs one execution at a
//! time; all simulated tasks of that execution are coroutines on this thread, so plain
//! `Cell`s are sufficient.

use std::cell::{Cell, RefCell};
use std::collections::BTreeMap;

pub const MAX_TASKS: usize = 24;

/// Rare-branch probes (reach measurement only; a missing probe never fails a check).
#[repr(usize)]
#[derive(Clone, Copy, Debug, PartialEq, Eq)]
pub enum Probe {
    MultiCasRetry = 0,
    PinConflictFull = 1,
    PinRecheckFailed = 2,
    MaxDiffNone = 3,
    GroupChangedDuringScan = 4,
    DisconnectSecondLook = 5,
    EpochCycleStarted = 6,
    EpochCycleCompleted = 7,
    CondvarWaitEntered = 8,
    TaskParkedConsumer = 9,
    TaskParkedProducer = 10,
    ClaimedBeforePublish = 11,
    AddStreamSnapshot = 12,
    AddStreamCasRetry = 13,
    RemoveReaderUnlinked = 14,
    CloneMid = 15,
    ViewMid = 16,
    SendFullReturned = 17,
    RecvEmptyReturned = 18,
    RecvCommitRetry = 19,
    TailReloaded = 20,
    SenderDropDecremented = 21,
    TokenRemoved = 22,
    FreeDeferred = 23,
    /// pseudo-probe: a raw dereference of queue bookkeeping (the `touch` hook)
    RawDeref = 24,
}
pub const N_PROBES: usize = 25;
pub const PROBE_NAMES: [&str; N_PROBES] = [
    "commit_cas_lost_race",
    "pin_conflict_full",
    "pin_recheck_failed",
    "max_diff_none",
    "group_changed_during_scan",
    "disconnect_second_look",
    "epoch_cycle_started",
    "epoch_cycle_completed",
    "condvar_wait_entered",
    "task_parked_consumer",
    "task_parked_producer",
    "claimed_before_publish",
    "add_stream_snapshot",
    "add_stream_cas_retry",
    "remove_reader_unlinked",
    "clone_mid",
    "view_mid",
    "send_full_returned",
    "recv_empty_returned",
    "recv_commit_retry",
    "tail_reloaded",
    "sender_drop_decremented",
    "token_removed",
    "free_deferred",
    "raw_deref",
];

/// Fault kinds that are counted when they actually fire.
#[repr(usize)]
#[derive(Clone, Copy, Debug, PartialEq, Eq)]
pub enum Fault {
    Preempt = 0,
    Stall = 1,
    SoloFreeze = 2,
    PartyLeaves = 3,
    WeakCasSpurious = 4,
    SpuriousPoll = 5,
    SlowClone = 6,
    SlowView = 7,
    SleepJump = 8,
    SlowDrop = 9,
}
pub const N_FAULTS: usize = 10;
pub const FAULT_NAMES: [&str; N_FAULTS] = [
    "preempt",
    "stall",
    "solo_freeze",
    "party_leaves",
    "weak_cas_spurious",
    "spurious_poll",
    "slow_clone",
    "slow_view",
    "sleep_jump",
    "slow_drop",
];

#[derive(Clone, Debug)]
pub struct MemViolation {
    pub class: &'static str, // use_after_free | double_free | invalid_free
    pub what: String,
    pub step: u64,
    pub task: usize,
}

#[derive(Clone, Copy, Debug)]
pub struct FreedBlock {
    pub len: usize,
    pub ty: &'static str,
    pub freed_step: u64,
    pub freed_by: usize,
}

#[derive(Clone, Copy, Debug)]
pub struct LiveBlock {
    pub len: usize,
    pub align: usize,
    pub ty: &'static str,
}

pub struct Rt {
    /// inside an execution: every shim operation is a scheduling point
    pub active: Cell<bool>,
    pub exec_id: Cell<u32>,
    /// task chosen by the last scheduling decision (set by the harness scheduler)
    pub cur: Cell<usize>,
    /// shared-state fingerprint (XOR of h(addr,value) deltas; lock/park toggles)
    pub fp: Cell<u64>,
    pub steps: Cell<u64>,
    pub task_steps: [Cell<u64>; MAX_TASKS],
    /// >0 while the task is inside a queue API call made by the harness
    pub in_api: [Cell<u32>; MAX_TASKS],
    /// number of shim locks currently held by the task
    pub locks_held: [Cell<u32>; MAX_TASKS],
    /// consecutive own shim operations that did not change the fingerprint
    pub idle_ops: [Cell<u32>; MAX_TASKS],
    /// digest of (task, op kind) sequence: identifies the interleaving
    pub ilv: Cell<u64>,
    pub contention: Cell<u64>,
    pub probes: [Cell<u64>; N_PROBES],
    pub faults: [Cell<u64>; N_FAULTS],
    /// PRNG stream for faults injected inside shims (seeded per run by the harness)
    pub fault_rng: Cell<u64>,
    /// probability (per 65536) that a compare_exchange_weak fails spuriously
    pub weak_cas_rate: Cell<u32>,
    pub weak_cas_consec: Cell<u32>,
    /// allocation seam: quarantine freed blocks instead of freeing them
    pub quarantine: Cell<bool>,
    pub freed: RefCell<BTreeMap<usize, FreedBlock>>,
    pub live: RefCell<BTreeMap<usize, LiveBlock>>,
    pub mem_violation: RefCell<Option<MemViolation>>,
    pub sim_time_ms: Cell<u64>,
    /// armed trap: when a task hits this probe, request a stall of that task
    pub trap_probe: Cell<usize>, // usize::MAX = none
    pub trap_task: Cell<usize>,  // usize::MAX = any
    pub trap_len: Cell<u32>,
    pub trap_countdown: Cell<u32>, // fire on the n-th hit
    /// request to the scheduler: freeze `task` for `len` steps
    pub stall_req: Cell<Option<(usize, u32)>>,
    /// solo mode: only this task may run
    pub solo: Cell<Option<usize>>,
    pub solo_blocked: Cell<bool>,
    /// seam-level counters (bytes currently allocated through alloc::allocate)
    pub seam_live_bytes: Cell<i64>,
    pub seam_live_blocks: Cell<i64>,
    /// a task asked for the execution to end (violation detected inside a task)
    pub stop: Cell<bool>,
    /// print every shim operation (debugging aid, VERIF_TRACE=1)
    pub trace: Cell<bool>,
    /// also yield *after* every write (store / RMW / successful CAS): exposes the non-atomic
    /// code that follows a publication (e.g. a tag stored before the value is written)
    pub post_write: Cell<bool>,
    /// scheduling points also after every load / failed CAS
    pub post_load: Cell<bool>,
}

impl Rt {
    fn new() -> Rt {
        Rt {
            active: Cell::new(false),
            exec_id: Cell::new(0),
            cur: Cell::new(0),
            fp: Cell::new(0),
            steps: Cell::new(0),
            task_steps: Default::default(),
            in_api: Default::default(),
            locks_held: Default::default(),
            idle_ops: Default::default(),
            ilv: Cell::new(0),
            contention: Cell::new(0),
            probes: Default::default(),
            faults: Default::default(),
            fault_rng: Cell::new(0x9E37_79B9_7F4A_7C15),
            weak_cas_rate: Cell::new(0),
            weak_cas_consec: Cell::new(0),
            quarantine: Cell::new(false),
            freed: RefCell::new(BTreeMap::new()),
            live: RefCell::new(BTreeMap::new()),
            mem_violation: RefCell::new(None),
            sim_time_ms: Cell::new(0),
            trap_probe: Cell::new(usize::MAX),
            trap_task: Cell::new(usize::MAX),
            trap_len: Cell::new(0),
            trap_countdown: Cell::new(0),
            stall_req: Cell::new(None),
            solo: Cell::new(None),
            solo_blocked: Cell::new(false),
            seam_live_bytes: Cell::new(0),
            seam_live_blocks: Cell::new(0),
            stop: Cell::new(false),
            trace: Cell::new(false),
            post_write: Cell::new(false),
            post_load: Cell::new(false),
        }
    }

    /// Reset everything that is per execution. Called by the harness before each run.
    pub fn reset(&self, seed: u64) {
        self.exec_id.set(self.exec_id.get().wrapping_add(1));
        self.cur.set(0);
        self.fp.set(0);
        self.steps.set(0);
        for i in 0..MAX_TASKS {
            self.task_steps[i].set(0);
            self.in_api[i].set(0);
            self.locks_held[i].set(0);
            self.idle_ops[i].set(0);
        }
        self.ilv.set(0xcbf2_9ce4_8422_2325);
        self.contention.set(0);
        for p in &self.probes {
            p.set(0);
        }
        for f in &self.faults {
            f.set(0);
        }
        self.fault_rng.set(seed | 1);
        self.weak_cas_rate.set(0);
        self.weak_cas_consec.set(0);
        self.quarantine.set(false);
        self.freed.borrow_mut().clear();
        self.live.borrow_mut().clear();
        *self.mem_violation.borrow_mut() = None;
        self.sim_time_ms.set(0);
        self.trap_probe.set(usize::MAX);
        self.trap_task.set(usize::MAX);
        self.trap_len.set(0);
        self.trap_countdown.set(0);
        self.stall_req.set(None);
        self.solo.set(None);
        self.solo_blocked.set(false);
        self.seam_live_bytes.set(0);
        self.seam_live_blocks.set(0);
        self.stop.set(false);
        self.post_write.set(false);
        self.post_load.set(false);
    }

    #[inline]
    pub fn next_fault_rand(&self) -> u64 {
        // xorshift64*
        let mut x = self.fault_rng.get();
        x ^= x >> 12;
        x ^= x << 25;
        x ^= x >> 27;
        self.fault_rng.set(x);
        x.wrapping_mul(0x2545_F491_4F6C_DD1D)
    }

    #[inline]
    pub fn fault(&self, f: Fault) {
        let c = &self.faults[f as usize];
        c.set(c.get() + 1);
    }

    #[inline]
    pub fn toggle(&self, addr: usize, tag: u64) {
        self.fp.set(self.fp.get() ^ mix(addr as u64, tag));
    }

    pub fn report_mem(&self, class: &'static str, what: String) {
        let mut v = self.mem_violation.borrow_mut();
        if v.is_none() {
            *v = Some(MemViolation {
                class,
                what,
                step: self.steps.get(),
                task: self.cur.get(),
            });
        }
        // what the program does after it touched freed memory depends on what the allocator
        // has done with that memory: end the execution at the next scheduling decision, so
        // that the recorded history (and its digest) stops where the defined behaviour stops
        self.stop.set(true);
    }

    /// Check an address the crate is about to access against the freed set.
    pub fn check_addr(&self, addr: usize, what: &'static str) {
        let _g = crate::galloc::NoAttr::new();
        let freed = self.freed.borrow();
        if let Some((start, blk)) = freed.range(..=addr).next_back() {
            if addr < start + blk.len.max(1) {
                let msg = format!(
                    "{} of {} (offset {} in block of {} bytes) freed at step {} by task {}",
                    what,
                    short_ty(blk.ty),
                    addr - start,
                    blk.len,
                    blk.freed_step,
                    blk.freed_by
                );
                drop(freed);
                self.report_mem("use_after_free", msg);
            }
        }
    }
}

pub fn short_ty(t: &'static str) -> &'static str {
    match t.rfind("::") {
        Some(i) => {
            // keep generic parameters readable: strip the module path of the head only
            if t.contains('<') {
                let head_end = t.find('<').unwrap();
                match t[..head_end].rfind("::") {
                    Some(j) => &t[j + 2..],
                    None => t,
                }
            } else {
                &t[i + 2..]
            }
        }
        None => t,
    }
}

#[inline]
pub fn mix(a: u64, b: u64) -> u64 {
    let mut x = a.wrapping_mul(0x9E37_79B9_7F4A_7C15) ^ b.wrapping_add(0xD6E8_FEB8_6659_FD93);
    x ^= x >> 32;
    x = x.wrapping_mul(0xD6E8_FEB8_6659_FD93);
    x ^= x >> 29;
    x = x.wrapping_mul(0x9E37_79B9_7F4A_7C15);
    x ^= x >> 32;
    x
}

thread_local! {
    pub static RT: Rt = Rt::new();
}

#[inline]
pub fn with<R>(f: impl FnOnce(&Rt) -> R) -> R {
    RT.with(|rt| f(rt))
}
