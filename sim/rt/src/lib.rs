//! Runtime of the multiqueue2 deterministic simulator: shims for the crate's concurrency
//! primitives, the allocation seam, and the per-thread state the harness observes.
pub mod galloc;
pub mod hooks;
pub mod shim;
pub mod state;

pub use state::{with, Fault, Probe};
