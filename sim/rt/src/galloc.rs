//! Global allocator wrapper of the harness process.
//!
//! * attribution: bytes allocated while the *current simulated task* is inside a queue API
//!   call are counted as queue memory (C17). The flag is per OS thread; the shims save,
//!   clear and restore it around every context switch, which is the only place where the
//!   running task can change.
//! * quarantine (C16): while enabled, blocks freed on this thread are not returned to the
//!   system allocator until the execution is over, so stale reads hit stable memory.

use std::alloc::{GlobalAlloc, Layout, System};
use std::cell::Cell;

pub struct SimAlloc;

const TABLE_BITS: usize = 18;
const TABLE_SIZE: usize = 1 << TABLE_BITS;
const QUAR_CAP: usize = 1 << 16;
const QSET_BITS: usize = 18;
const QSET_SIZE: usize = 1 << QSET_BITS;

/// No field has a destructor, so the thread-local never registers one and stays usable
/// for the whole life of the thread (the allocator runs during thread teardown too).
struct Tracker {
    // open addressing table addr -> size of attributed live blocks
    keys: Cell<*mut usize>,
    vals: Cell<*mut u32>,
    used: Cell<usize>,
    overflow: Cell<bool>,
    quar: Cell<*mut (usize, usize, usize)>,
    quar_len: Cell<usize>,
    /// open addressing set of the addresses currently in quarantine (double-free detection)
    qset: Cell<*mut usize>,
    /// first double free seen in this execution: (address, size)
    double_free: Cell<(usize, usize)>,
}

thread_local! {
    static ATTR: Cell<bool> = const { Cell::new(false) };
    static QUAR: Cell<bool> = const { Cell::new(false) };
    static BUSY: Cell<bool> = const { Cell::new(false) };
    static LIVE_BYTES: Cell<i64> = const { Cell::new(0) };
    static LIVE_BLOCKS: Cell<i64> = const { Cell::new(0) };
    static PEAK_BYTES: Cell<i64> = const { Cell::new(0) };
    static TOTAL_ALLOCS: Cell<u64> = const { Cell::new(0) };
    static TRACKER: Tracker = const { Tracker {
        keys: Cell::new(std::ptr::null_mut()),
        vals: Cell::new(std::ptr::null_mut()),
        used: Cell::new(0),
        overflow: Cell::new(false),
        quar: Cell::new(std::ptr::null_mut()),
        quar_len: Cell::new(0),
        qset: Cell::new(std::ptr::null_mut()),
        double_free: Cell::new((0, 0)),
    } };
}


#[inline]
fn slot(addr: usize) -> usize {
    ((addr >> 4).wrapping_mul(0x9E37_79B9_7F4A_7C15usize)) >> (64 - TABLE_BITS)
}

impl Tracker {
    unsafe fn ensure(&self) {
        if self.keys.get().is_null() {
            self.keys
                .set(System.alloc_zeroed(Layout::array::<usize>(TABLE_SIZE).unwrap()) as *mut usize);
            self.vals
                .set(System.alloc_zeroed(Layout::array::<u32>(TABLE_SIZE).unwrap()) as *mut u32);
            self.quar.set(
                System.alloc_zeroed(Layout::array::<(usize, usize, usize)>(QUAR_CAP).unwrap())
                    as *mut (usize, usize, usize),
            );
            self.qset
                .set(System.alloc_zeroed(Layout::array::<usize>(QSET_SIZE).unwrap()) as *mut usize);
        }
    }
    unsafe fn insert(&self, addr: usize, size: usize) -> bool {
        let k = self.keys.get();
        if k.is_null() {
            return false;
        }
        if self.used.get() * 2 > TABLE_SIZE {
            self.overflow.set(true);
            return false;
        }
        let v = self.vals.get();
        let mut i = slot(addr);
        loop {
            let c = *k.add(i);
            if c == 0 {
                *k.add(i) = addr;
                *v.add(i) = size.min(u32::MAX as usize) as u32;
                self.used.set(self.used.get() + 1);
                return true;
            }
            i = (i + 1) & (TABLE_SIZE - 1);
        }
    }
    unsafe fn remove(&self, addr: usize) -> Option<usize> {
        let k = self.keys.get();
        if k.is_null() {
            return None;
        }
        let v = self.vals.get();
        let mask = TABLE_SIZE - 1;
        let mut i = slot(addr);
        loop {
            let c = *k.add(i);
            if c == 0 {
                return None;
            }
            if c == addr {
                break;
            }
            i = (i + 1) & mask;
        }
        let size = *v.add(i) as usize;
        // backward-shift deletion keeps probe sequences intact without tombstones
        let mut hole = i;
        let mut j = (i + 1) & mask;
        loop {
            let c = *k.add(j);
            if c == 0 {
                break;
            }
            let home = slot(c);
            // can entry at j move into the hole? yes iff home is not in (hole, j] cyclically
            let in_range = if hole <= j {
                home > hole && home <= j
            } else {
                home > hole || home <= j
            };
            if !in_range {
                *k.add(hole) = c;
                *v.add(hole) = *v.add(j);
                hole = j;
            }
            j = (j + 1) & mask;
        }
        *k.add(hole) = 0;
        self.used.set(self.used.get() - 1);
        Some(size)
    }
    unsafe fn clear(&self) {
        let k = self.keys.get();
        if !k.is_null() {
            std::ptr::write_bytes(k, 0, TABLE_SIZE);
        }
        self.used.set(0);
        self.overflow.set(false);
    }
    /// true if the address is already quarantined (= this free is a double free)
    unsafe fn qset_insert(&self, addr: usize) -> bool {
        let t = self.qset.get();
        if t.is_null() {
            return false;
        }
        let mask = QSET_SIZE - 1;
        let mut i = ((addr >> 4).wrapping_mul(0x9E37_79B9_7F4A_7C15usize)) >> (64 - QSET_BITS);
        loop {
            let c = *t.add(i);
            if c == addr {
                return true;
            }
            if c == 0 {
                *t.add(i) = addr;
                return false;
            }
            i = (i + 1) & mask;
        }
    }
    unsafe fn quar_push(&self, e: (usize, usize, usize)) -> bool {
        let q = self.quar.get();
        let n = self.quar_len.get();
        if q.is_null() || n >= QUAR_CAP {
            return false;
        }
        if self.qset_insert(e.0) {
            // freed twice while in quarantine: keep the first entry, remember the event
            if self.double_free.get().0 == 0 {
                self.double_free.set((e.0, e.1));
            }
            return true;
        }
        *q.add(n) = e;
        self.quar_len.set(n + 1);
        true
    }
}

unsafe impl GlobalAlloc for SimAlloc {
    unsafe fn alloc(&self, layout: Layout) -> *mut u8 {
        let p = System.alloc(layout);
        if !p.is_null() && ATTR.with(|a| a.get()) && !BUSY.with(|b| b.replace(true)) {
            TRACKER.with(|t| {
                if t.insert(p as usize, layout.size()) {
                    if TRACE_SIZE.with(|t| t.get()) == layout.size() {
                        eprintln!("[alloc {}]\n{}", layout.size(), std::backtrace::Backtrace::force_capture());
                    }
                    LIVE_BYTES.with(|c| {
                        let n = c.get() + layout.size() as i64;
                        c.set(n);
                        PEAK_BYTES.with(|pk| {
                            if n > pk.get() {
                                pk.set(n)
                            }
                        });
                    });
                    LIVE_BLOCKS.with(|c| c.set(c.get() + 1));
                    TOTAL_ALLOCS.with(|c| c.set(c.get() + 1));
                }
            });
            BUSY.with(|b| b.set(false));
        }
        p
    }

    unsafe fn dealloc(&self, ptr: *mut u8, layout: Layout) {
        if !BUSY.with(|b| b.replace(true)) {
            TRACKER.with(|t| {
                if t.used.get() != 0 {
                    if let Some(sz) = t.remove(ptr as usize) {
                        LIVE_BYTES.with(|c| c.set(c.get() - sz as i64));
                        LIVE_BLOCKS.with(|c| c.set(c.get() - 1));
                    }
                }
            });
            let keep = QUAR.with(|q| q.get())
                && TRACKER.with(|t| t.quar_push((ptr as usize, layout.size(), layout.align())));
            BUSY.with(|b| b.set(false));
            if keep {
                return;
            }
        }
        System.dealloc(ptr, layout)
    }

    unsafe fn realloc(&self, ptr: *mut u8, layout: Layout, new_size: usize) -> *mut u8 {
        // route through alloc/dealloc so that attribution and quarantine stay exact
        let new_layout = Layout::from_size_align_unchecked(new_size, layout.align());
        let np = self.alloc(new_layout);
        if !np.is_null() {
            std::ptr::copy_nonoverlapping(ptr, np, layout.size().min(new_size));
            self.dealloc(ptr, layout);
        }
        np
    }
}

/// Called once per worker thread before the first execution (allocates the tables).
pub fn init_thread() {
    BUSY.with(|b| b.set(true));
    TRACKER.with(|t| unsafe { t.ensure() });
    BUSY.with(|b| b.set(false));
}

/// Enter/leave "inside a queue API call" for the running task.
#[inline]
pub fn set_attr(on: bool) -> bool {
    ATTR.with(|a| a.replace(on))
}

#[inline]
pub fn suspend() -> bool {
    ATTR.with(|a| a.replace(false))
}

#[inline]
pub fn resume(saved: bool) {
    ATTR.with(|a| a.set(saved))
}

/// Sizes of the attributed blocks that are still live (diagnostics for C17).
pub fn survivors() -> Vec<usize> {
    BUSY.with(|b| b.set(true));
    let mut out = Vec::new();
    TRACKER.with(|t| unsafe {
        let k = t.keys.get();
        let v = t.vals.get();
        if !k.is_null() {
            for i in 0..TABLE_SIZE {
                if *k.add(i) != 0 {
                    out.push(*v.add(i) as usize);
                }
            }
        }
    });
    BUSY.with(|b| b.set(false));
    out.sort_unstable();
    out
}

thread_local! {
    static TRACE_SIZE: Cell<usize> = const { Cell::new(0) };
}
/// Print a backtrace whenever an attributed block of exactly this size is allocated.
pub fn trace_size(sz: usize) {
    TRACE_SIZE.with(|t| t.set(sz));
}

/// RAII guard: harness / runtime bookkeeping done in the middle of a queue API call must not
/// be attributed to the queue.
pub struct NoAttr(bool);
impl NoAttr {
    #[inline]
    pub fn new() -> NoAttr {
        NoAttr(suspend())
    }
}
impl Drop for NoAttr {
    #[inline]
    fn drop(&mut self) {
        resume(self.0)
    }
}

pub fn live_bytes() -> i64 {
    LIVE_BYTES.with(|c| c.get())
}
pub fn live_blocks() -> i64 {
    LIVE_BLOCKS.with(|c| c.get())
}
pub fn peak_bytes() -> i64 {
    PEAK_BYTES.with(|c| c.get())
}
pub fn reset_peak() {
    PEAK_BYTES.with(|c| c.set(LIVE_BYTES.with(|l| l.get())))
}
pub fn overflowed() -> bool {
    TRACKER.with(|t| t.overflow.get())
}

/// Forget all attributed blocks (start of an execution).
pub fn reset_counts() {
    BUSY.with(|b| b.set(true));
    TRACKER.with(|t| unsafe { t.clear() });
    BUSY.with(|b| b.set(false));
    LIVE_BYTES.with(|c| c.set(0));
    LIVE_BLOCKS.with(|c| c.set(0));
    PEAK_BYTES.with(|c| c.set(0));
    TOTAL_ALLOCS.with(|c| c.set(0));
}

pub fn set_quarantine(on: bool) {
    QUAR.with(|q| q.set(on));
}

/// Keep a block that the crate released through `alloc::deallocate` (the caller skips the
/// real free); it is released by `release_quarantine`.
pub fn quarantine_raw(ptr: usize, size: usize, align: usize) {
    BUSY.with(|b| b.set(true));
    // on overflow the block is leaked (never reused, which is what quarantine wants)
    TRACKER.with(|t| unsafe {
        t.quar_push((ptr, size, align));
    });
    BUSY.with(|b| b.set(false));
}

/// A block was freed twice while quarantine was on (address, size), if any; clears it.
pub fn take_double_free() -> Option<(usize, usize)> {
    TRACKER.with(|t| {
        let d = t.double_free.replace((0, 0));
        if d.0 == 0 {
            None
        } else {
            Some(d)
        }
    })
}

/// Really free everything that was quarantined (end of an execution).
pub fn release_quarantine() {
    QUAR.with(|q| q.set(false));
    BUSY.with(|b| b.set(true));
    TRACKER.with(|t| unsafe {
        let q = t.quar.get();
        for i in 0..t.quar_len.get() {
            let (p, s, a) = *q.add(i);
            if s != 0 {
                System.dealloc(p as *mut u8, Layout::from_size_align_unchecked(s, a));
            }
        }
        t.quar_len.set(0);
        let qs = t.qset.get();
        if !qs.is_null() {
            std::ptr::write_bytes(qs, 0, QSET_SIZE);
        }
    });
    BUSY.with(|b| b.set(false));
}
