//! Guarded hooks called from /repo (allocation seam, raw-pointer touch, probes).

use crate::state::{with, Fault, FreedBlock, LiveBlock, N_PROBES};

/// `alloc::allocate` returned `ptr` for `bytes` bytes of `ty`.
pub fn on_alloc(ptr: usize, bytes: usize, align: usize, ty: &'static str) {
    let _g = crate::galloc::NoAttr::new();
    with(|rt| {
        if !rt.active.get() {
            return;
        }
        rt.seam_live_bytes
            .set(rt.seam_live_bytes.get() + bytes as i64);
        rt.seam_live_blocks.set(rt.seam_live_blocks.get() + 1);
        if bytes == 0 {
            return;
        }
        rt.live.borrow_mut().insert(
            ptr,
            LiveBlock {
                len: bytes,
                align,
                ty,
            },
        );
        // the real allocator may hand out an address again only if we really freed it,
        // which quarantine mode never does; outside quarantine mode forget stale entries
        if !rt.quarantine.get() {
            rt.freed.borrow_mut().remove(&ptr);
        }
    })
}

/// `alloc::deallocate` is about to free `ptr`. Returns true when the harness keeps the
/// memory (quarantine mode): the caller must then not free it.
pub fn on_dealloc(ptr: usize, bytes: usize, _align: usize, ty: &'static str) -> bool {
    let _g = crate::galloc::NoAttr::new();
    with(|rt| {
        if !rt.active.get() {
            return false;
        }
        rt.seam_live_bytes
            .set(rt.seam_live_bytes.get() - bytes as i64);
        rt.seam_live_blocks.set(rt.seam_live_blocks.get() - 1);
        if bytes == 0 {
            return false;
        }
        let was_live = rt.live.borrow_mut().remove(&ptr);
        if rt.quarantine.get() {
            let already = rt.freed.borrow().get(&ptr).copied();
            if let Some(b) = already {
                rt.report_mem(
                    "double_free",
                    format!(
                        "{} freed again (first freed at step {} by task {})",
                        crate::state::short_ty(b.ty),
                        b.freed_step,
                        b.freed_by
                    ),
                );
                return true;
            }
            match was_live {
                None => {
                    rt.report_mem(
                        "invalid_free",
                        format!(
                            "free of {} at an address the queue never allocated",
                            crate::state::short_ty(ty)
                        ),
                    );
                    return true;
                }
                Some(l) => {
                    if l.len != bytes {
                        rt.report_mem(
                            "invalid_free",
                            format!(
                                "free of {} with {} bytes, allocated with {}",
                                crate::state::short_ty(ty),
                                bytes,
                                l.len
                            ),
                        );
                    }
                }
            }
            rt.freed.borrow_mut().insert(
                ptr,
                FreedBlock {
                    len: bytes,
                    ty,
                    freed_step: rt.steps.get(),
                    freed_by: rt.cur.get(),
                },
            );
            // keep the memory: never reused during this execution
            crate::galloc::quarantine_raw(ptr, bytes, _align);
            true
        } else {
            false
        }
    })
}

/// About to dereference a raw pointer to queue bookkeeping that is read non-atomically.
#[inline]
pub fn touch(ptr: usize, what: &'static str) {
    // a raw dereference is a trap anchor (pseudo-probe `raw_deref`), and a scheduling point
    // when a trap fires here or the run has post-load points: the window between loading a
    // pointer and dereferencing it is then preemptible, for as long as the stall lasts
    probe(crate::state::Probe::RawDeref as usize);
    let switch = with(|rt| rt.active.get() && (rt.post_load.get() || matches!(rt.stall_req.get(), Some((t, _)) if t == rt.cur.get())));
    if switch {
        crate::shim::sched_point(crate::shim::K_POST);
    }
    let _g = crate::galloc::NoAttr::new();
    with(|rt| {
        if rt.active.get() && rt.quarantine.get() {
            rt.check_addr(ptr, what);
        }
    })
}

#[inline]
pub fn probe(id: usize) {
    with(|rt| {
        if !rt.active.get() || id >= N_PROBES {
            return;
        }
        rt.probes[id].set(rt.probes[id].get() + 1);
        if rt.trap_probe.get() == id {
            let me = rt.cur.get();
            let tt = rt.trap_task.get();
            if tt == usize::MAX || tt == me {
                let c = rt.trap_countdown.get();
                if c > 0 {
                    rt.trap_countdown.set(c - 1);
                } else {
                    rt.trap_probe.set(usize::MAX);
                    rt.stall_req.set(Some((me, rt.trap_len.get())));
                    rt.fault(Fault::Stall);
                }
            }
        }
    })
}
