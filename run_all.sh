#!/bin/sh
# runs every registered check once (tier from $1, default quick) and prints a summary line per property
TIER=${1:-quick}
ROOT=$(dirname "$(readlink -f "$0")")
LOGS="$ROOT/sim/target/run_all_logs"
mkdir -p "$LOGS"
for p in C01 C02 C03 C04 C05 C06 C07 C08 C09 C10 C11 C12 C13 C14 C15 C16 C17 C18; do
  "$(dirname "$(readlink -f "$0")")/check" $p --tier $TIER > "$LOGS/$p.log" 2>&1; rc=$?
  echo "$p exit=$rc $(grep -E "^C[0-9]+: " "$LOGS/$p.log" | cut -c1-160)"
  grep -E "^(VIOLATION|HARNESS-ERROR)" "$LOGS/$p.log" | head -3
done
